"""Shared runner machinery: named assertions, case accounting, Hypothesis driving,
replay files, known findings, evidence.  See DESIGN.md section 2."""
import hashlib
import json
import math
import os
import sys
import time
import traceback
from collections import Counter

VERIF_ROOT = os.path.dirname(os.path.dirname(os.path.abspath(__file__)))
REPO_ROOT = os.environ.get("MSDM_REPO", "/repo")


class Violation(Exception):
    def __init__(self, name, msg=""):
        super().__init__(f"{name}: {msg}")
        self.name = name
        self.msg = msg


class Inconclusive(Exception):
    """A deterministic step budget was exhausted; neither pass nor fail."""


class Rejected(Exception):
    """The generated case is outside the property's domain (counted)."""


class StopShrink(BaseException):
    """Escapes Hypothesis once the shrink budget is used up."""


class HarnessError(Exception):
    pass


def canon(spec):
    return json.dumps(spec, sort_keys=True, separators=(",", ":"), default=_json_default)


def _json_default(o):
    try:
        import numpy as np
        if isinstance(o, np.integer):
            return int(o)
        if isinstance(o, np.floating):
            return float(o)
        if isinstance(o, np.ndarray):
            return o.tolist()
    except Exception:
        pass
    if isinstance(o, (set, frozenset)):
        return sorted(o, key=repr)
    if isinstance(o, tuple):
        return list(o)
    return repr(o)


def spec_hash(spec):
    return hashlib.sha1(canon(spec).encode()).hexdigest()[:16]


def derive_seed(base, *parts):
    h = hashlib.sha256(("|".join([str(base)] + [str(p) for p in parts])).encode()).hexdigest()
    return int(h[:12], 16)


class Prop:
    """One executable property: a Hypothesis strategy producing JSON specs and a
    function fn(spec, ctx) made of named assertions (ctx.check / ctx.viol)."""

    def __init__(self, name, strategy, fn, quick, thorough=None, doc=""):
        self.name = name
        self.strategy = strategy  # callable(tier) -> SearchStrategy, or a SearchStrategy
        self.fn = fn
        self.quick = quick
        self.thorough = thorough if thorough is not None else quick * 20
        self.doc = doc

    def strat(self, tier):
        s = self.strategy
        if callable(s) and not hasattr(s, "example"):
            return s(tier)
        return s


class ExhaustiveProp(Prop):
    """A property function run over a completely enumerated finite space (thorough tier; a bounded
    sub-space in the quick tier). `enumerate_cases(tier)` yields JSON specs in a fixed order; shard i of n
    takes every n-th case. No shrinking: the smallest failing spec per assertion name is reported."""

    def __init__(self, name, enumerate_cases, fn, doc=""):
        super().__init__(name, None, fn, quick=0, thorough=0, doc=doc)
        self.enumerate_cases = enumerate_cases

    def runner(self, prop, ctx, n, seedval, tier):
        import json
        found = {}
        shard, nshards = getattr(ctx, "shard", 0), getattr(ctx, "nshards", 1)
        count = 0
        for idx, spec in enumerate(self.enumerate_cases(tier)):
            if idx % nshards != shard:
                continue
            count += 1
            ctx.begin(self.name, spec)
            try:
                self.fn(spec, ctx)
            except Violation as v:
                size = len(canon(spec))
                if v.name not in found or size < found[v.name][0]:
                    found[v.name] = (size, {"prop": self.name, "assertion": v.name, "message": v.msg,
                                            "spec": json.loads(canon(spec))})
                if len(found) >= 8:
                    ctx.disabled.add(v.name)
                ctx.end(ok=False)
                continue
            except Inconclusive:
                ctx.counters["inconclusive"] += 1
            except Rejected:
                ctx.counters["rejected"] += 1
            ctx.end()
        ctx.counters[f"{self.name}|exhaustive_cases_this_shard"] += count
        return [v for _, v in found.values()]


class Ctx:
    def __init__(self, pid, known_findings=(), known_predicates=None, tier="quick"):
        self.pid = pid
        self.tier = tier
        self.known = [k for k in known_findings if k.get("property") == pid and k.get("status") == "known"]
        self.known_predicates = known_predicates or {}
        self.disabled = set()
        self.counters = Counter()
        self.assert_counts = Counter()
        self.known_hits = Counter()
        self.nontrivial_hashes = set()
        self.evaluations = 0
        self.per_prop_evals = Counter()
        self.samples = []
        self._cur_spec = None
        self._cur_prop = None
        self._cur_nt = False
        self._sample_every = 1

    # ---- case lifecycle -------------------------------------------------
    def begin(self, prop_name, spec):
        self._cur_spec = spec
        self._cur_prop = prop_name
        self._cur_nt = False

    def end(self, ok=True):
        self.evaluations += 1
        self.per_prop_evals[self._cur_prop] += 1
        if self._cur_nt:
            h = self._cur_prop + ":" + spec_hash(self._cur_spec)
            if h not in self.nontrivial_hashes:
                self.nontrivial_hashes.add(h)
                n = self.per_prop_evals[self._cur_prop]
                # keep a few samples per property function: 1st, 10th, 100th, ... non-trivial
                k = sum(1 for s in self.samples if s["prop"] == self._cur_prop)
                if k < 3 and (k == 0 or n >= 10 ** k):
                    self.samples.append({"prop": self._cur_prop, "spec": json.loads(canon(self._cur_spec))})

    # ---- classification -------------------------------------------------
    def event(self, label, n=1):
        self.counters[f"{self._cur_prop}|{label}"] += n

    def nontrivial(self, flag=True):
        if flag:
            self._cur_nt = True

    # ---- named assertions -----------------------------------------------
    def check(self, cond, name, msg=None):
        self.assert_counts[name] += 1
        if cond:
            return True
        self.viol(name, msg)
        return False

    def viol(self, name, msg=None):
        if callable(msg):
            msg = msg()
        msg = "" if msg is None else str(msg)
        if name in self.disabled:
            self.counters[f"disabled|{name}"] += 1
            return
        for k in self.known:
            names = k.get("assertions") or [k.get("assertion")]
            if name not in names:
                continue
            pred = k.get("predicate")
            if pred is None or self.known_predicates[pred](self._cur_spec, msg):
                self.known_hits[k["id"]] += 1
                return
        raise Violation(name, msg)

    def call(self, name, fn, *args, **kwargs):
        """Run msdm code; an exception coming out of it is a violation `name`
        (the property says the call succeeds), never a harness error."""
        try:
            return fn(*args, **kwargs)
        except (Violation, Inconclusive, Rejected, StopShrink):
            raise
        except Exception as e:  # noqa
            if type(e).__module__.startswith("vpm"):
                raise          # raised by the harness itself (budgets, time-outs), only passing through msdm frames
            tb = traceback.extract_tb(e.__traceback__)
            where = ""
            for fr in reversed(tb):
                if "/msdm/" in fr.filename:
                    where = f" at {fr.filename.split('/msdm/', 1)[1]}:{fr.lineno}"
                    break
            self.assert_counts[name] += 0
            self.viol(name, f"{type(e).__name__}: {e}{where}")
            raise Rejected(f"known/disabled crash {name}")

    # ---- merging (thorough tier workers) --------------------------------
    def summary(self):
        return {
            "evaluations": self.evaluations,
            "per_prop_evals": dict(self.per_prop_evals),
            "nontrivial_hashes": sorted(self.nontrivial_hashes),
            "counters": dict(self.counters),
            "assert_counts": dict(self.assert_counts),
            "known_hits": dict(self.known_hits),
            "samples": self.samples,
        }


def load_known_findings():
    p = os.path.join(VERIF_ROOT, "known_findings.json")
    if not os.path.exists(p):
        return []
    with open(p) as f:
        return json.load(f).get("findings", [])


def close(a, b, atol=1e-9, rtol=1e-9):
    if a == b:
        return True
    if isinstance(a, float) and isinstance(b, float) and (math.isinf(a) or math.isinf(b)):
        return a == b
    try:
        if math.isnan(a) or math.isnan(b):
            return False
    except TypeError:
        pass
    return abs(a - b) <= atol + rtol * max(abs(a), abs(b))
