"""Reference MDP models built from the spec only (numpy; never imports msdm).

Optimal values come from enumerating all deterministic policies with one linear solve
each (V*(s) = max_pi V^pi(s)), and are certified by their Bellman-optimality residual.
"""
import itertools
import math
import numpy as np

NEG_INF = float("-inf")


def closure(spec, expand_initial_absorbing=False):
    """States reachable with positive probability from the positive initial support;
    explicitly absorbing states are not expanded."""
    absorbing = spec["absorbing"]
    S0 = [s for s, w in spec["p0"] if w > 0]
    seen = set(S0)
    frontier = [s for s in S0 if expand_initial_absorbing or not absorbing[s]]
    while frontier:
        s = frontier.pop()
        for a, outs in spec["trans"][s]:
            for ns, w, r in outs:
                if w <= 0:
                    continue
                if ns not in seen:
                    seen.add(ns)
                    if not absorbing[ns]:
                        frontier.append(ns)
    return seen


class RefMDP:
    def __init__(self, spec):
        n, m = spec["n"], spec["m"]
        self.n, self.m = n, m
        self.gamma = float(spec["gamma"])
        self.large = bool(spec.get("large", False)) and (float(spec["gamma"]) < 1.0 or spec.get("flavour") in ("ssp", "dproper"))
        T = np.zeros((n, m, n))
        R = np.zeros((n, m, n))
        W = np.zeros((n, m, n), dtype=int)
        avail = np.zeros((n, m), dtype=bool)
        for s in range(n):
            for a, outs in spec["trans"][s]:
                avail[s, a] = True
                tot = sum(w for _, w, _ in outs)
                for ns, w, r in outs:
                    T[s, a, ns] = w / tot
                    W[s, a, ns] = w
                    if w > 0:
                        R[s, a, ns] = r
        self.T, self.R, self.W, self.avail = T, R, W, avail
        self.explicit_abs = np.array([bool(x) for x in spec["absorbing"]])
        # implicit: every available action is a sure self-loop paying 0 (and there is an action)
        imp = np.zeros(n, dtype=bool)
        for s in range(n):
            acts = [a for a in range(m) if avail[s, a]]
            if not acts:
                continue
            ok = True
            for a in acts:
                pos = [ns for ns in range(n) if W[s, a, ns] > 0]
                if pos != [s] or R[s, a, s] != 0:
                    ok = False
            imp[s] = ok
        self.implicit_abs = imp
        self.absorbing = self.explicit_abs | imp
        tot0 = sum(w for _, w in spec["p0"])
        p0 = np.zeros(n)
        for s, w in spec["p0"]:
            p0[s] += w / tot0
        self.p0 = p0
        self.SR = np.einsum("san,san->sa", T, R)  # expected one-step reward

    # ---------- structure -------------------------------------------------
    def adjacency(self):
        return (self.W > 0).any(axis=1)

    @staticmethod
    def _reach(adj):
        n = adj.shape[0]
        r = adj | np.eye(n, dtype=bool)
        for _ in range(max(1, int(math.ceil(math.log2(max(n, 2)))) + 1)):
            r = r | ((r.astype(int) @ r.astype(int)) > 0)
        return r

    def unable_to_reach_absorbing(self):
        """States from which no absorbing state is reachable under any policy."""
        reach = self._reach(self.adjacency())
        if not self.absorbing.any():
            return np.ones(self.n, dtype=bool)
        return ~reach[:, self.absorbing].any(axis=1)

    # ---------- policies --------------------------------------------------
    def det_policies(self, frozen=None):
        """All deterministic policies as an int array K x n (action index per state);
        absorbing / frozen states get their first available action (irrelevant)."""
        frozen = self.absorbing if frozen is None else frozen
        choices = []
        for s in range(self.n):
            acts = [a for a in range(self.m) if self.avail[s, a]]
            if frozen[s] or len(acts) == 0:
                choices.append(acts[:1] or [0])
            else:
                choices.append(acts)
        return np.array(list(itertools.product(*choices)), dtype=int)

    def policy_matrix_from_det(self, pol):
        pi = np.zeros((self.n, self.m))
        pi[np.arange(self.n), pol] = 1.0
        return pi

    # ---------- evaluation ------------------------------------------------
    def chain(self, pi, zero=None):
        """Markov chain and reward vector of stochastic policy pi with `zero` rows
        (absorbing states by default) cut."""
        zero = self.absorbing if zero is None else zero
        P = np.einsum("san,sa->sn", self.T, pi)
        r = np.einsum("sa,sa->s", self.SR, pi)
        P[zero] = 0
        r[zero] = 0
        pos = np.einsum("san,sa->sn", (self.W > 0).astype(float), (pi > 0).astype(float)) > 0
        pos[zero] = False
        return P, r, pos

    def evaluate(self, pi, zero=None, gamma=None):
        """Exact value of a stochastic policy. Returns dict with V, Q, occupancy, initial_value.
        gamma<1: linear solve. gamma==1: closed-class analysis (total reward)."""
        gamma = self.gamma if gamma is None else gamma
        zero = self.absorbing if zero is None else zero
        n = self.n
        P, r, pos = self.chain(pi, zero)
        if gamma < 1.0:
            M = np.eye(n) - gamma * P
            V = np.linalg.solve(M, r)
            occ = np.linalg.solve(M.T, self.p0)
            rec_nonabs = np.zeros(n, dtype=bool)
            neg_inf = np.zeros(n, dtype=bool)
        else:
            reach = self._reach(pos)
            # recurrent non-absorbing: every state reachable from s can reach s back
            rec = np.array([all(reach[t, s] for t in range(n) if reach[s, t]) for s in range(n)]) & ~zero
            # a non-cut state whose row sums to 0 cannot exist (every state has an action)
            neg_rec = rec & (r < 0)
            pos_rec = rec & (r > 0)
            neg_inf = reach[:, neg_rec].any(axis=1)
            pos_inf = reach[:, pos_rec].any(axis=1)
            if (neg_inf & pos_inf).any():
                raise ValueError("total reward undefined (classes of both signs reachable)")
            Pt = P.copy()
            Pt[rec] = 0
            rt = r.copy()
            rt[rec] = 0
            M = np.eye(n) - Pt
            V = np.linalg.solve(M, rt)
            V[neg_inf] = NEG_INF
            V[pos_inf] = float("inf")
            occ = np.linalg.solve(M.T, self.p0)
            init_reach = reach[self.p0 > 0].any(axis=0)
            occ[init_reach & rec] = float("inf")
            rec_nonabs = rec
        with np.errstate(invalid="ignore"):
            fut = np.where(self.T > 0, self.T * V[None, None, :], 0.0).sum(-1)
        Q = self.SR + gamma * fut
        Q[~self.avail] = NEG_INF
        with np.errstate(invalid="ignore"):
            iv = float(np.where(self.p0 > 0, self.p0 * V, 0.0).sum())
        return {"V": V, "Q": Q, "occupancy": occ, "initial_value": iv,
                "recurrent_nonabsorbing": rec_nonabs, "neg_inf": neg_inf}

    def expected_steps(self, pi, zero=None):
        """Expected number of steps until a cut (absorbing) state under pi; inf if a
        recurrent non-cut state is reachable."""
        zero = self.absorbing if zero is None else zero
        n = self.n
        P, r, pos = self.chain(pi, zero)
        reach = self._reach(pos)
        rec = np.array([all(reach[t, s] for t in range(n) if reach[s, t]) for s in range(n)]) & ~zero
        Pt = P.copy()
        Pt[rec] = 0
        one = (~zero & ~rec).astype(float)
        N = np.linalg.solve(np.eye(n) - Pt, one)
        N[reach[:, rec].any(axis=1)] = float("inf")
        return N

    # ---------- optimal values ---------------------------------------------
    def optimal(self, zero=None, gamma=None):
        """V*, Q* by deterministic-policy enumeration. `zero`: states treated as worth-0
        exits (absorbing states by default). For gamma == 1 values may be -inf."""
        if self.large and gamma is None:
            return self.optimal_large(zero=zero)      # tens of states: certified policy iteration instead of enumeration
        gamma = self.gamma if gamma is None else gamma
        zero = self.absorbing if zero is None else zero
        n = self.n
        pols = self.det_policies(frozen=zero)
        K = len(pols)
        if gamma < 1.0:
            idx = np.arange(n)
            P = self.T[idx[None, :], pols, :]            # K x n x n
            r = self.SR[idx[None, :], pols]              # K x n
            P = P.copy()
            r = r.copy()
            P[:, zero, :] = 0
            r[:, zero] = 0
            M = np.eye(n)[None] - gamma * P
            Vs = np.linalg.solve(M, r[..., None])[..., 0]
            V = Vs.max(axis=0)
        else:
            Vs = np.empty((K, n))
            for k in range(K):
                Vs[k] = self.evaluate(self.policy_matrix_from_det(pols[k]), zero=zero, gamma=1.0)["V"]
            V = Vs.max(axis=0)
        V = V.copy()
        V[zero] = 0.0
        with np.errstate(invalid="ignore"):
            fut = np.where(self.T > 0, self.T * V[None, None, :], 0.0).sum(-1)
        Q = self.SR + gamma * fut
        Q[~self.avail] = NEG_INF
        # certificate: Bellman optimality residual at non-cut states
        for s in range(n):
            if zero[s] or not self.avail[s].any():
                continue
            best = Q[s][self.avail[s]].max()
            # (normwise: a linear solve is accurate relative to the largest value in the system)
            vmax_ = float(np.max(np.abs(V[np.isfinite(V)]))) if np.isfinite(V).any() else 0.0
            floor_ = vmax_ + (self.rmax_abs() / (1 - gamma) if gamma < 1 else self.rmax_abs() * n)
            if not (best == V[s] or abs(best - V[s]) <= 1e-7 * (1 + abs(V[s])) + 1e-12 * floor_):
                raise AssertionError(f"reference optimal value not a Bellman fixed point at {s}: {best} vs {V[s]}")
        return {"V": V, "Q": Q, "n_policies": K, "policies": pols, "Vs": Vs}

    def optimal_large(self, zero=None):
        """V*, Q* without enumeration: Howard policy iteration (numpy, independent of msdm) from the first available
        action, certified by the Bellman optimality residual. For gamma < 1, or gamma == 1 when every policy is proper."""
        gamma = self.gamma
        zero = self.absorbing if zero is None else zero
        n = self.n
        pol = np.array([int(np.argmax(self.avail[s])) for s in range(n)])
        idx = np.arange(n)
        V = np.zeros(n)
        for _ in range(10 * n + 50):
            P = self.T[idx, pol, :].copy()
            r = self.SR[idx, pol].copy()
            P[zero, :] = 0
            r[zero] = 0
            V = np.linalg.solve(np.eye(n) - gamma * P, r)
            V[zero] = 0.0
            Q = self.SR + gamma * (self.T * V[None, None, :]).sum(-1)
            Q[~self.avail] = NEG_INF
            best = Q.max(axis=1)
            new = np.where(Q[idx, pol] >= best - 1e-12 * (1 + np.abs(best)), pol, Q.argmax(axis=1))
            if (new == pol).all():
                break
            pol = new
        else:
            raise AssertionError("reference policy iteration did not settle")
        for s in range(n):
            if zero[s] or not self.avail[s].any():
                continue
            b = Q[s][self.avail[s]].max()
            if not abs(b - V[s]) <= 1e-8 * (1 + abs(V[s])):
                raise AssertionError(f"reference optimal value not a Bellman fixed point at {s}: {b} vs {V[s]}")
        return {"V": V, "Q": Q, "n_policies": None, "policies": None, "Vs": None}

    def rmax_abs(self):
        pos = self.W > 0
        if not pos.any():
            return 0.0
        return float(np.abs(self.R[pos]).max())


# ---------------------------------------------------------------------------------------------
# average reward (gain) — absorbing states are zero-reward self-loops
# ---------------------------------------------------------------------------------------------
def _closed_classes(pos):
    """closed communicating classes of a chain with positivity pattern `pos` (n x n bool)."""
    n = pos.shape[0]
    reach = RefMDP._reach(pos)
    classes = []
    seen = set()
    for s in range(n):
        if s in seen:
            continue
        cls = [t for t in range(n) if reach[s, t] and reach[t, s]]
        closed = all(reach[t, s] for t in range(n) if reach[s, t])
        if closed:
            classes.append(cls)
            seen.update(cls)
    return classes, reach


def gain_of_policy(ref, pi):
    """Per-state long-run average reward of stochastic policy pi (Cesaro limit), exact up to
    linear solves. Returns (gain vector, number of closed classes)."""
    n = ref.n
    P = np.einsum("san,sa->sn", ref.T, pi)
    r = np.einsum("sa,sa->s", ref.SR, pi)
    pos = np.einsum("san,sa->sn", (ref.W > 0).astype(float), (pi > 0).astype(float)) > 0
    for s in range(n):
        if ref.absorbing[s]:
            P[s] = 0
            P[s, s] = 1
            r[s] = 0
            pos[s] = False
            pos[s, s] = True
    classes, reach = _closed_classes(pos)
    g_class = []
    for cls in classes:
        k = len(cls)
        Pc = P[np.ix_(cls, cls)]
        A = np.vstack([Pc.T - np.eye(k), np.ones((1, k))])
        b = np.zeros(k + 1)
        b[-1] = 1
        mu = np.linalg.lstsq(A, b, rcond=None)[0]
        g_class.append(float(mu @ r[cls]))
    rec = sorted(s for cls in classes for s in cls)
    trans = [s for s in range(n) if s not in rec]
    g = np.zeros(n)
    for cls, gc in zip(classes, g_class):
        g[cls] = gc
    if trans:
        Ptt = P[np.ix_(trans, trans)]
        rhs = np.zeros(len(trans))
        for cls, gc in zip(classes, g_class):
            rhs += P[np.ix_(trans, cls)].sum(axis=1) * gc
        g[trans] = np.linalg.solve(np.eye(len(trans)) - Ptt, rhs)
    return g, len(classes)


def optimal_gain_enumeration(ref):
    pols = ref.det_policies(frozen=ref.absorbing)
    best = np.full(ref.n, -np.inf)
    max_classes = 0
    for pol in pols:
        g, k = gain_of_policy(ref, ref.policy_matrix_from_det(pol))
        best = np.maximum(best, g)
        max_classes = max(max_classes, k)
    return best, max_classes


def optimal_gain_lp(ref):
    """Multichain average-reward LP (Puterman 9.3): min sum_j g_j s.t. g_s >= sum_j p(j|s,a) g_j,
    g_s + h_s >= r(s,a) + sum_j p(j|s,a) h_j for all available (s, a)."""
    from scipy.optimize import linprog
    n = ref.n
    rows, rhs = [], []
    for s in range(n):
        for a in range(ref.m):
            if not ref.avail[s, a]:
                continue
            if ref.absorbing[s]:
                p = np.zeros(n)
                p[s] = 1.0
                rew = 0.0
            else:
                p = ref.T[s, a]
                rew = ref.SR[s, a]
            e = np.zeros(n)
            e[s] = 1
            # -(g_s - p g) <= 0
            rows.append(np.concatenate([-(e - p), np.zeros(n)]))
            rhs.append(0.0)
            # -(g_s + h_s - p h) <= -r
            rows.append(np.concatenate([-e, -(e - p)]))
            rhs.append(-rew)
    c = np.concatenate([np.ones(n), np.zeros(n)])
    res = linprog(c, A_ub=np.array(rows), b_ub=np.array(rhs), bounds=[(None, None)] * (2 * n), method="highs")
    if res.status != 0:
        raise AssertionError(f"gain LP failed: {res.message}")
    return res.x[:n]
