"""Finite measures as dict[event, number] (Fractions wherever the inputs are rational), written
from the definitions. Never imports msdm."""
from fractions import Fraction as F
import math


def total(p):
    return sum(p.values(), F(0))


def marginalize(p, f):
    out = {}
    for e, x in p.items():
        k = f(e)
        out[k] = out.get(k, 0) + x
    return out


def chain(p, kernel):
    out = {}
    for e, x in p.items():
        for y, q in kernel(e).items():
            out[y] = out.get(y, 0) + x * q
    return out


def condition(p, lik):
    un = {e: x * lik(e) for e, x in p.items() if lik(e) > 0}
    z = sum(un.values(), F(0))
    if z == 0:
        return None
    return {e: x / z for e, x in un.items()}


def joint(p, q):
    return {(a, b): x * y for a, x in p.items() for b, y in q.items()}


def mix(w1, p, w2, q):
    out = {}
    for e, x in p.items():
        out[e] = out.get(e, 0) + w1 * x
    for e, x in q.items():
        out[e] = out.get(e, 0) + w2 * x
    return out


def conj(p, q):
    common = set(p) & set(q)
    un = {e: p[e] * q[e] for e in common}
    z = sum(un.values(), F(0))
    if z == 0:
        return None
    return {e: x / z for e, x in un.items()}


def expectation(p, f):
    return sum((f(e) * x for e, x in p.items()), F(0))


def normalize(p):
    z = total(p)
    if z == 0:
        return None
    return {e: x / z for e, x in p.items()}


def softmax(scores):
    m = max(scores.values())
    z = math.fsum(math.exp(s - m) for s in scores.values())
    return {e: math.exp(s - m) / z for e, s in scores.items()}
