"""Reference POMDP model on exact Fractions (never imports msdm)."""
from fractions import Fraction as F
from vpm.ref.mdp import RefMDP, closure


class RefPOMDP:
    def __init__(self, spec):
        self.spec = spec
        n, m, k = spec["n"], spec["m"], spec["k"]
        self.n, self.m, self.k = n, m, k
        self.gamma = F(spec["gamma"]).limit_denominator(10 ** 6)
        self.T = [[None] * m for _ in range(n)]
        self.R = [[None] * m for _ in range(n)]
        for s in range(n):
            for a, outs in spec["trans"][s]:
                tot = sum(w for _, w, _ in outs)
                d, r = {}, {}
                for ns, w, rew in outs:
                    if w > 0:
                        d[ns] = d.get(ns, F(0)) + F(w, tot)
                        r[ns] = F(rew).limit_denominator(10 ** 6) if not isinstance(rew, int) else F(rew)
                self.T[s][a] = d
                self.R[s][a] = r
        self.O = [[None] * n for _ in range(m)]
        for a in range(m):
            for ns in range(n):
                row = spec["obs"][a][ns]
                tot = sum(w for _, w in row)
                self.O[a][ns] = {o: F(w, tot) for o, w in row if w > 0}
        rm = RefMDP(spec)
        self.absorbing = [bool(x) for x in rm.absorbing]
        tot0 = sum(w for _, w in spec["p0"])
        self.p0 = {}
        for s, w in spec["p0"]:
            if w > 0:
                self.p0[s] = self.p0.get(s, F(0)) + F(w, tot0)
        self.reach = closure(spec)

    @staticmethod
    def belief(weights):
        tot = sum(weights)
        return {s: F(w, tot) for s, w in enumerate(weights) if w > 0}

    def predict(self, b, a):
        out = {}
        for s, p in b.items():
            for ns, q in self.T[s][a].items():
                out[ns] = out.get(ns, F(0)) + p * q
        return out

    def obs_dist(self, b, a):
        out = {}
        for ns, p in self.predict(b, a).items():
            for o, q in self.O[a][ns].items():
                out[o] = out.get(o, F(0)) + p * q
        return out

    def posterior(self, b, a, o):
        un = {}
        for ns, p in self.predict(b, a).items():
            q = self.O[a][ns].get(o, F(0))
            if p * q > 0:
                un[ns] = p * q
        tot = sum(un.values())
        if tot == 0:
            return {}
        return {ns: p / tot for ns, p in un.items()}

    def expected_reward(self, b, a):
        return sum(p * q * self.R[s][a][ns] for s, p in b.items() for ns, q in self.T[s][a].items())

    def belief_absorbing(self, b):
        return all(self.absorbing[s] for s, p in b.items() if p > 0)


# ---------------------------------------------------------------------------------------------
# float expectimax on (unnormalised) belief mass vectors; absorbing states are worth 0
# ---------------------------------------------------------------------------------------------
import numpy as np


class RefPOMDPArrays:
    def __init__(self, spec):
        rm = RefMDP(spec)
        self.n, self.m, self.k = spec["n"], spec["m"], spec["k"]
        self.gamma = float(spec["gamma"])
        self.nt = ~rm.absorbing
        self.absorbing = rm.absorbing
        self.T = rm.T * self.nt[:, None, None]
        self.SR = rm.SR * self.nt[:, None]
        self.T_full, self.SR_full, self.R_full = rm.T, rm.SR, rm.R
        O = np.zeros((self.m, self.n, self.k))
        for a in range(self.m):
            for ns in range(self.n):
                row = spec["obs"][a][ns]
                tot = sum(w for _, w in row)
                for o, w in row:
                    O[a, ns, o] = w / tot
        self.O = O
        self.p0 = rm.p0
        self.rm = rm
        live = self.SR[self.nt]
        self.rmin = float(live.min()) if live.size else 0.0
        self.rmax = float(live.max()) if live.size else 0.0

    def successors(self, w, a):
        """unnormalised successor mass vectors per observation"""
        pred = w @ self.T[:, a, :]
        return [pred * self.O[a, :, o] for o in range(self.k)]

    def vk(self, w, depth, leaf=0.0):
        """finite-horizon optimal value of mass vector w; leaf(w) value per unit of non-absorbing mass"""
        if depth == 0:
            return leaf * float(w[self.nt].sum())
        best = -np.inf
        for a in range(self.m):
            v = float(w @ self.SR[:, a])
            for w2 in self.successors(w, a):
                if w2.sum() > 0:
                    v += self.gamma * self.vk(w2, depth - 1, leaf)
            best = max(best, v)
        return best

    def lower(self, w, depth):
        return self.vk(w, depth, leaf=min(0.0, self.rmin) / (1 - self.gamma))

    def upper(self, w, depth):
        return self.vk(w, depth, leaf=max(0.0, self.rmax) / (1 - self.gamma))

    def reachable_beliefs(self, steps):
        """normalised beliefs reachable from p0 within `steps` steps (full, unmasked dynamics as the
        belief filter sees them)"""
        out = [self.p0.copy()]
        frontier = [self.p0.copy()]
        for _ in range(steps):
            nxt = []
            for b in frontier:
                for a in range(self.m):
                    pred = b @ self.T_full[:, a, :]
                    for o in range(self.k):
                        w2 = pred * self.O[a, :, o]
                        if w2.sum() > 1e-15:
                            nb = w2 / w2.sum()
                            if not any(np.allclose(nb, x, atol=1e-12) for x in out):
                                out.append(nb)
                                nxt.append(nb)
            frontier = nxt
        return out


# ---------------------------------------------------------------------------------------------
# finite-state controllers (episodic: entering an absorbing state ends the episode, value 0)
# ---------------------------------------------------------------------------------------------
def fsc_value_linear(arr, act, obs):
    """V[n, s] by solving the cross-product linear system. act[n,a], obs[n,a,o,m]."""
    N = act.shape[0]
    n = arr.n
    # masked dynamics: arr.T / arr.SR already have absorbing rows zeroed
    M = np.einsum("na,sat,ato,naom->nsmt", act, arr.T, arr.O, obs).reshape(N * n, N * n)
    c = (act @ arr.SR.T).reshape(N * n)
    V = np.linalg.solve(np.eye(N * n) - arr.gamma * M, c)
    return V.reshape(N, n)


def fsc_value_iterative(arr, act, obs, iters=5000):
    """the same quantity by iterating the evaluation operator (independent of the linear solve)"""
    N = act.shape[0]
    V = np.zeros((N, arr.n))
    for _ in range(iters):
        fut = np.einsum("sat,ato,naom,mt->nsa", arr.T, arr.O, obs, V)
        newV = np.einsum("na,nsa->ns", act, arr.SR[None, :, :] + arr.gamma * fut)
        if np.max(np.abs(newV - V)) < 1e-14:
            V = newV
            break
        V = newV
    return V


def fsc_history_action_prob(act, obs, init, hist):
    """probability the controller DEFINES for the action sequence of hist = [(a0,o0),(a1,o1),...]
    given the observations (hidden-node forward algorithm)."""
    f = np.array(init, dtype=float)
    for a, o in hist:
        f = (f * act[:, a]) @ obs[:, a, o, :]
    return float(f.sum())
