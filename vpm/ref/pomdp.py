"""Reference POMDP model on exact Fractions (never imports msdm)."""
from fractions import Fraction as F
from vpm.ref.mdp import RefMDP, closure


class RefPOMDP:
    def __init__(self, spec):
        self.spec = spec
        n, m, k = spec["n"], spec["m"], spec["k"]
        self.n, self.m, self.k = n, m, k
        self.gamma = F(spec["gamma"]).limit_denominator(10 ** 6)
        self.T = [[None] * m for _ in range(n)]
        self.R = [[None] * m for _ in range(n)]
        for s in range(n):
            for a, outs in spec["trans"][s]:
                tot = sum(w for _, w, _ in outs)
                d, r = {}, {}
                for ns, w, rew in outs:
                    if w > 0:
                        d[ns] = d.get(ns, F(0)) + F(w, tot)
                        r[ns] = F(rew).limit_denominator(10 ** 6) if not isinstance(rew, int) else F(rew)
                self.T[s][a] = d
                self.R[s][a] = r
        self.O = [[None] * n for _ in range(m)]
        for a in range(m):
            for ns in range(n):
                row = spec["obs"][a][ns]
                tot = sum(w for _, w in row)
                self.O[a][ns] = {o: F(w, tot) for o, w in row if w > 0}
        rm = RefMDP(spec)
        self.absorbing = [bool(x) for x in rm.absorbing]
        tot0 = sum(w for _, w in spec["p0"])
        self.p0 = {}
        for s, w in spec["p0"]:
            if w > 0:
                self.p0[s] = self.p0.get(s, F(0)) + F(w, tot0)
        self.reach = closure(spec)

    @staticmethod
    def belief(weights):
        tot = sum(weights)
        return {s: F(w, tot) for s, w in enumerate(weights) if w > 0}

    def predict(self, b, a):
        out = {}
        for s, p in b.items():
            for ns, q in self.T[s][a].items():
                out[ns] = out.get(ns, F(0)) + p * q
        return out

    def obs_dist(self, b, a):
        out = {}
        for ns, p in self.predict(b, a).items():
            for o, q in self.O[a][ns].items():
                out[o] = out.get(o, F(0)) + p * q
        return out

    def posterior(self, b, a, o):
        un = {}
        for ns, p in self.predict(b, a).items():
            q = self.O[a][ns].get(o, F(0))
            if p * q > 0:
                un[ns] = p * q
        tot = sum(un.values())
        if tot == 0:
            return {}
        return {ns: p / tot for ns, p in un.items()}

    def expected_reward(self, b, a):
        return sum(p * q * self.R[s][a][ns] for s, p in b.items() for ns, q in self.T[s][a].items())

    def belief_absorbing(self, b):
        return all(self.absorbing[s] for s, p in b.items() if p > 0)
