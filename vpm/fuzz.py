"""Coverage-guided stage:  python -m vpm.fuzz <pid> <tier> <base-seed> <worker-index> <runs> <out.json> [prop,prop...]

One worker process = one libFuzzer campaign (atheris) per property function listed in the check module's
FUZZ["props"]: the bytes libFuzzer mutates are decoded into a case by the *same* Hypothesis strategy the random
tiers use (`test.hypothesis.fuzz_one_input`), the case is judged by the *same* property function and reference
model, and branch coverage of the msdm package (instrumented at import) steers the mutation. Failures are stored
by Hypothesis in an in-memory example database; when the campaign's execution budget is used up the worker replays
and shrinks them with Hypothesis's own shrinker (phases reuse + shrink) and writes an `out` record in the format of
`vpm.run.run_shard`, so the master merges it like any other shard.

libFuzzer never returns from Fuzz(): the worker counts executions itself and leaves through os._exit once the record
is written. A campaign is pinned by -seed only approximately; the saved (shrunk) spec is the reproducible unit.
"""
import json
import os
import sys
import time
import traceback

HERE = os.path.dirname(os.path.abspath(__file__))
VERIF_ROOT = os.path.dirname(HERE)
sys.path.insert(0, VERIF_ROOT)


def _import_instrumented():
    import atheris
    import importlib
    import pkgutil
    from vpm.core import REPO_ROOT
    if REPO_ROOT not in sys.path:
        sys.path.insert(0, REPO_ROOT)
    import warnings
    warnings.filterwarnings("ignore")
    import logging
    logging.disable(logging.WARNING)
    with atheris.instrument_imports(include=["msdm"], enable_loader_override=False):
        import msdm
        for m in pkgutil.walk_packages(msdm.__path__, "msdm."):
            if ".tests" in m.name or m.name.endswith(".tests") or ".tools" in m.name:
                continue
            try:
                importlib.import_module(m.name)
            except BaseException:  # optional dependencies (cvxpy, ...) of modules no check uses
                pass
    mf = os.path.realpath(msdm.__file__)
    if not mf.startswith(os.path.realpath(REPO_ROOT) + os.sep):
        raise RuntimeError(f"msdm imported from {mf}, expected under {REPO_ROOT}")
    return atheris


def main(argv):
    pid, tier, base_seed, widx, runs, out_path = argv[0], argv[1], int(argv[2]), int(argv[3]), int(argv[4]), argv[5]
    prop_names = [p for p in (argv[6] if len(argv) > 6 else "").split(",") if p]
    t0 = time.time()
    out = {"shard": 1000 + widx, "violations": [], "harness_error": None, "fuzz": {}}

    def finish(code=0):
        out["wall_s"] = time.time() - t0
        tmp = out_path + ".tmp"
        with open(tmp, "w") as f:
            json.dump(out, f, default=str)
        os.replace(tmp, out_path)
        sys.stdout.flush()
        sys.stderr.flush()
        os._exit(code)

    try:
        os.environ["VPM_PID"] = pid
        atheris = _import_instrumented()
        import hypothesis
        from hypothesis import given, settings, HealthCheck, Phase
        from hypothesis.database import InMemoryExampleDatabase
        from vpm.core import (Ctx, Violation, StopShrink, canon, derive_seed, load_known_findings)
        from vpm.run import load_module, _run_one, SHRINK_BUDGET_S
        mod = load_module(pid)
        ctx = Ctx(pid, load_known_findings(), getattr(mod, "KNOWN_PREDICATES", {}), tier)
        ctx.shard, ctx.nshards = 1000 + widx, 1
        props = [p for p in mod.PROPS if p.name in prop_names and getattr(p, "runner", None) is None]
        if not props:
            raise RuntimeError(f"no fuzzable property functions among {prop_names}")
        # one campaign per worker: worker i takes property i mod len(props)
        prop = props[widx % len(props)]
        db = InMemoryExampleDatabase()
        state = {"n": 0, "valid": 0, "first": {}, "best": None, "t_first": None, "shrinking": False}

        def body(spec):
            state["valid"] += 1
            try:
                _run_one(prop, spec, ctx)
            except Violation as v:
                if state["shrinking"]:
                    size = len(canon(spec))
                    if state["best"] is None or size <= state["best"][0]:
                        state["best"] = (size, spec, v.name, v.msg)
                    now = time.time()
                    if state["t_first"] is None:
                        state["t_first"] = now
                    elif now - state["t_first"] > SHRINK_BUDGET_S[tier]:
                        raise StopShrink()
                else:
                    state["first"].setdefault(v.name, (json.loads(canon(spec)), v.msg))
                raise

        test = given(prop.strat(tier))(body)
        test = settings(max_examples=1, database=db, deadline=None, derandomize=False, report_multiple_bugs=False,
                        print_blob=False, suppress_health_check=list(HealthCheck),
                        phases=[Phase.reuse, Phase.shrink])(test)
        fuzz_one = test.hypothesis.fuzz_one_input

        def wrap_up():
            # replay + shrink what the campaign stored, one root cause (assertion name) per round
            names = list(state["first"])
            ctx.disabled.clear()
            state["shrinking"] = True
            found = {}
            for _round in range(min(5, len(names))):
                state["best"], state["t_first"] = None, None
                try:
                    test()
                    break
                except (StopShrink, Violation):
                    pass
                except BaseException:
                    if state["best"] is None:
                        break
                if state["best"] is None:
                    break
                _, spec, name, msg = state["best"]
                found[name] = {"prop": prop.name, "assertion": name, "message": msg, "spec": json.loads(canon(spec)),
                               "found_by": "coverage-guided stage"}
                ctx.disabled.add(name)
            for name, (spec, msg) in state["first"].items():   # anything the shrink phase did not reproduce: as found
                if name not in found:
                    found[name] = {"prop": prop.name, "assertion": name, "message": msg, "spec": spec,
                                   "found_by": "coverage-guided stage (unshrunk)"}
            out["violations"] = list(found.values())
            out.update(ctx.summary())
            out["meta"] = {"rule": getattr(mod, "RULE", ""), "assumptions": list(getattr(mod, "ASSUMPTIONS", [])),
                           "docs": {p.name: p.doc for p in mod.PROPS}}
            out["fuzz"] = {"prop": prop.name, "executions": state["n"], "decoded_to_a_case": state["valid"],
                           "failing_assertions": names}
            finish(0)

        def target(data):
            state["n"] += 1
            try:
                fuzz_one(data)
            except Violation as v:
                ctx.disabled.add(v.name)      # keep exploring behind a found failure
            except (StopShrink,):
                pass
            except BaseException as e:      # raised by harness code: a harness error, never a violation
                out["harness_error"] = "".join(traceback.format_exception(type(e), e, e.__traceback__))[-6000:]
                finish(2)
            if state["n"] >= runs:
                wrap_up()

        seedval = derive_seed(base_seed, pid, "fuzz", widx) % (2 ** 31 - 1) or 1
        corpus = out_path + ".corpus"
        os.makedirs(corpus, exist_ok=True)
        # libFuzzer grows inputs only when coverage moves, and buffers shorter than the strategy's draw sequence decode
        # to nothing: start from buffers that are long enough (a pure function of the seed)
        import random
        r = random.Random(seedval)
        for i in range(48):
            with open(os.path.join(corpus, f"seed{i:02d}"), "wb") as f:
                f.write(r.randbytes(r.choice([512, 2048, 8192, 16384])))
        atheris.Setup([sys.argv[0], f"-seed={seedval}", "-max_len=32768", "-len_control=50", "-print_final_stats=0", f"-artifact_prefix={corpus}/",
                       f"-runs={runs * 4}", corpus], target)
        atheris.Fuzz()
        wrap_up()     # libFuzzer stopped by itself before the budget (should not happen)
    except SystemExit:
        raise
    except BaseException as e:
        out["harness_error"] = "".join(traceback.format_exception(type(e), e, e.__traceback__))[-6000:]
        finish(2)


if __name__ == "__main__":
    main(sys.argv[1:])
