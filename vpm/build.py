"""spec -> msdm objects, through the public constructors only."""
from vpm.labels import dec


class SpecView:
    """Decoded helpers over an MDP spec."""

    def __init__(self, spec):
        self.spec = spec
        self.n = spec["n"]
        self.m = spec["m"]
        self.S = [dec(x) for x in spec["slabels"]]
        self.A = [dec(x) for x in spec["alabels"]]
        self.sidx = {s: i for i, s in enumerate(self.S)}
        self.aidx = {a: i for i, a in enumerate(self.A)}
        self.avail = [[a for a, _ in spec["trans"][s]] for s in range(self.n)]
        self.outs = {}
        for s in range(self.n):
            for a, outs in spec["trans"][s]:
                tot = sum(w for _, w, _ in outs)
                self.outs[(s, a)] = [(ns, w / tot, r) for ns, w, r in outs]
        tot0 = sum(w for _, w in spec["p0"])
        self.p0 = [(s, w / tot0) for s, w in spec["p0"]]
        self.gamma = spec["gamma"]


def build_mdp(spec, dist_kind="dict", cls=None, count_calls=None):
    """QuickTabularMDP over the decoded labels. Unavailable (s, a) pairs raise KeyError,
    as a dict-backed user model would."""
    from msdm.core.mdp import QuickTabularMDP
    from msdm.core.distributions import DictDistribution
    v = SpecView(spec)
    S, A, sidx, aidx = v.S, v.A, v.sidx, v.aidx
    nsd_cache = {}

    rep = spec.get("repr") or {}

    def as_dist(pairs):
        """pairs: [(event, prob)] -> distribution in the representation the spec asks for"""
        if rep.get("dist") == "auto":
            from msdm.core.distributions import DeterministicDistribution, UniformDistribution
            pos = [(e, p) for e, p in pairs if p > 0]
            if len(pairs) == 1 and len(pos) == 1 and pos[0][1] == 1:
                return DeterministicDistribution(pos[0][0])
            if len(pos) == len(pairs) > 1 and len({p for _, p in pairs}) == 1 and abs(sum(p for _, p in pairs) - 1) == 0:
                return UniformDistribution([e for e, _ in pairs])
        return DictDistribution(dict(pairs))

    def next_state_dist(s, a):
        key = (sidx[s], aidx[a])
        outs = v.outs[key]
        return as_dist([(S[ns], p) for ns, p, r in outs])

    rew = {}
    for (s, a), outs in v.outs.items():
        for ns, p, r in outs:
            rew[(s, a, ns)] = r

    def reward(s, a, ns):
        return rew[(sidx[s], aidx[a], sidx[ns])]

    shared = {}

    def actions(s):
        acts = tuple(A[a] for a in v.avail[sidx[s]])
        if rep.get("actions") == "shared_list":
            return shared.setdefault(acts, list(acts))   # the same list object for every state with this action set
        if rep.get("actions") == "list":
            return list(acts)
        return acts

    def is_absorbing(s):
        flag = spec["absorbing"][sidx[s]]
        if rep.get("abs") == "int":
            return int(flag)
        if rep.get("abs") == "npbool":
            import numpy as _np
            return _np.bool_(flag)
        return bool(flag)

    initial = as_dist([(S[s], p) for s, p in v.p0])
    cls = cls or QuickTabularMDP
    mdp = cls(
        next_state_dist=next_state_dist, reward=reward, actions=actions,
        initial_state_dist=initial, is_absorbing=is_absorbing, discount_rate=v.gamma,
    )
    if spec.get("explicit_states") is not None:
        mdp._state_list = tuple(S[i] for i in spec["explicit_states"])
    if spec.get("explicit_actions") is not None:
        mdp._action_list = tuple(A[i] for i in spec["explicit_actions"])
    return mdp, v


def build_tabular_policy(spec, polspec, mdp, view, dtype=None):
    """TabularPolicy over mdp.state_list x mdp.action_list from a policy spec. `dtype` ("int" / "bool" / "float32"):
    the table a caller may well write by hand - applied only when every entry is exactly representable in it."""
    import numpy as np
    from msdm.core.mdp import TabularPolicy
    sl, al = list(mdp.state_list), list(mdp.action_list)
    data = np.zeros((len(sl), len(al)))
    for si, s in enumerate(sl):
        i = view.sidx[s]
        row = polspec[i]
        tot = sum(w for _, w in row)
        for a, w in row:
            data[si, al.index(view.A[a])] = w / tot
    if dtype in ("int", "bool", "float32"):
        cast = data.astype({"int": np.int64, "bool": np.bool_, "float32": np.float32}[dtype])
        if (cast.astype(float) == data).all():
            data = cast
    return TabularPolicy.from_state_action_lists(state_list=sl, action_list=al, data=data)


def build_pomdp(spec):
    """A TabularPOMDP subclass instance over the decoded labels (the way repo domains are written)."""
    from msdm.core.pomdp import TabularPOMDP
    from msdm.core.distributions import DictDistribution
    v = SpecView(spec)
    S, A, sidx, aidx = v.S, v.A, v.sidx, v.aidx
    OL = [dec(x) for x in spec["olabels"]]
    v.OL = OL
    v.oidx = {o: i for i, o in enumerate(OL)}
    rew = {}
    for (s, a), outs in v.outs.items():
        for ns, p, r in outs:
            rew[(s, a, ns)] = r
    obs = {}
    for a in range(spec["m"]):
        for ns in range(spec["n"]):
            row = spec["obs"][a][ns]
            tot = sum(w for _, w in row)
            obs[(a, ns)] = {OL[o]: w / tot for o, w in row}

    rep = spec.get("repr") or {}

    def as_dist(pairs):
        if rep.get("dist") == "auto":
            from msdm.core.distributions import DeterministicDistribution
            pos = [(e, p) for e, p in pairs if p > 0]
            if len(pairs) == 1 and len(pos) == 1 and pos[0][1] == 1:
                return DeterministicDistribution(pos[0][0])
        return DictDistribution(dict(pairs))

    class SpecPOMDP(TabularPOMDP):
        def __init__(self):
            self.discount_rate = v.gamma

        def next_state_dist(self, s, a):
            return as_dist([(S[ns], p) for ns, p, r in v.outs[(sidx[s], aidx[a])]])

        def reward(self, s, a, ns):
            return rew[(sidx[s], aidx[a], sidx[ns])]

        def actions(self, s):
            return tuple(A[a] for a in v.avail[sidx[s]])

        def initial_state_dist(self):
            return DictDistribution({S[s]: p for s, p in v.p0})

        def is_absorbing(self, s):
            flag = spec["absorbing"][sidx[s]]
            return int(flag) if rep.get("abs") == "int" else bool(flag)

        def observation_dist(self, a, ns):
            return as_dist(list(obs[(aidx[a], sidx[ns])].items()))

    if spec.get("explicit_observations") is not None:
        # the observation list declared as a class attribute (as the repo's LoadUnload does), in the spec's own order -
        # which need not be sorted and may name an observation that is never emitted
        SpecPOMDP.observation_list = [OL[i] for i in spec["explicit_observations"]]
    return SpecPOMDP(), v
