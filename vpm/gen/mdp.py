"""Hypothesis strategies producing JSON MDP specs (DESIGN.md 2.2).

spec = {
  n, m                     number of states / global actions (indices)
  slabels, alabels         encoded labels (vpm.labels)
  trans[s] = [[a, [[ns, w, r], ...]], ...]   available actions of s in order, outcomes with
                                              integer weights (0 allowed, >=1 positive) and rewards
  absorbing[s]             explicit is_absorbing flag (0/1)
  p0 = [[s, w], ...]
  gamma                    float in (0, 1]
  explicit_states          None | list of state indices (a permutation of all states)
  explicit_actions         None | list of action indices (a permutation of all actions)
  flavour
}
"""
from hypothesis import strategies as st
from vpm.labels import enc, state_labels, action_labels
from vpm.ref.mdp import closure

GAMMAS = [0.3, 0.5, 0.8, 0.9, 0.95, 0.99]
NONE_ACTION_PIDS = ("C01", "C02", "C03", "C04", "C06", "C16")


def normalise_absorbing_successors(spec):
    """Soundness rule: successors of (explicitly) absorbing states lie inside the state
    space (the reachable closure); redirect the others to a self-loop."""
    R = closure(spec)
    for s in range(spec["n"]):
        if spec["absorbing"][s]:
            for a, outs in spec["trans"][s]:
                seen = set()
                new = []
                for o in outs:
                    tgt = o[0] if o[0] in R else s
                    if tgt in seen:
                        continue
                    seen.add(tgt)
                    new.append([tgt, o[1], o[2]])
                if not any(w > 0 for _, w, _ in new):
                    new[0][1] = 1
                outs[:] = new
    return spec


@st.composite
def mdp_specs(draw, flavour="discounted", min_states=1, max_states=5, max_actions=3,
              schemes=("int", "str", "int_gap"), allow_explicit=True, normalise=True,
              multi_p0=True, zero_weights=True, reward_lo=None, reward_hi=None,
              p0_zero_entries=False, uniform_actions=False, gammas=None, max_out=3,
              absorbing_kinds=("n", "n", "n", "n", "n", "n", "abs", "imp"), connect=True, extreme=False,
              reward_values=None, none_action=None):
    sizes = list(range(min_states, max_states + 1))
    n = draw(st.sampled_from(sizes + sizes[len(sizes) // 2:]))
    m = draw(st.sampled_from(list(range(1, max_actions + 1)) + list(range(2, max_actions + 1))))
    proper = flavour in ("ssp", "dproper")
    if flavour in ("discounted", "dproper"):
        gamma = draw(st.sampled_from(gammas or GAMMAS))
    else:
        gamma = 1.0
    if reward_lo is None:
        reward_lo = -3
    if reward_hi is None:
        reward_hi = 0 if flavour == "negative" else 3
    rewards = st.integers(reward_lo, reward_hi) if reward_values is None else st.sampled_from(reward_values)

    kinds = [draw(st.sampled_from(absorbing_kinds)) for _ in range(n)]
    if proper:
        # state 0 is always a goal so that ranks are well founded
        if kinds[0] == "n":
            kinds[0] = draw(st.sampled_from(sorted(set(absorbing_kinds) - {"n"}) or ["abs"]))
    if not proper and n >= 2 and draw(st.integers(0, 5)) == 0:
        # a non-absorbing state all of whose actions are sure self-loops with non-zero rewards (which may cancel across
        # actions: +1 and -1) - it is *not* absorbing, its value is r_max / (1 - gamma)
        cand = [s for s in range(n) if kinds[s] == "n"]
        if cand:
            kinds[cand[draw(st.integers(0, len(cand) - 1))]] = "loop"
    trans = []
    absorbing = []
    for s in range(n):
        if uniform_actions:
            acts = list(range(m))
        else:
            acts = draw(st.lists(st.integers(0, m - 1), min_size=1, max_size=m, unique=True))
        rows = []
        kind = kinds[s]
        for a in acts:
            if kind == "imp":
                outs = [[s, draw(st.integers(1, 3)), 0]]
            elif kind == "loop":
                outs = [[s, draw(st.integers(1, 3)), draw(st.sampled_from([-1, -2, -1] if flavour == "negative" else [1, -1, 2, -2, 1, -1]))]]
            else:
                k = draw(st.integers(1, min(max_out, n)))
                nss = draw(st.lists(st.integers(0, n - 1), min_size=k, max_size=k, unique=True))
                lo_w = 0 if zero_weights else 1
                outs = [[ns, draw(st.integers(lo_w, 4)), draw(rewards)] for ns in nss]
                if proper and kind == "n":
                    # one outcome to a strictly lower-ranked state with probability >= 1/4
                    down = draw(st.integers(0, s - 1))
                    outs = [o for o in outs if o[0] != down][:2]
                    for o in outs:
                        o[1] = min(o[1], 3)
                    outs.append([down, draw(st.integers(2, 4)), draw(rewards)])
                    pos = draw(st.integers(0, len(outs) - 1))
                    outs.insert(pos, outs.pop())
                    if max_out == 1:  # deterministic proper MDP: the only outcome is the descending one
                        outs = [o for o in outs if o[0] == down]
                if connect and kind == "n" and a == acts[0] and n > 1 and not (proper and max_out == 1) \
                        and draw(st.integers(0, 3)) > 0:
                    nxt = (s + 1) % n
                    if not any(o[0] == nxt for o in outs):
                        if len(outs) >= max_out:
                            outs.pop(0 if not proper else [i for i, o in enumerate(outs) if o[0] != down][0])
                        outs.append([nxt, draw(st.integers(1, 3)), draw(rewards)])
                    else:
                        for o in outs:
                            if o[0] == nxt and o[1] == 0:
                                o[1] = 1
                if not any(w > 0 for _, w, _ in outs):
                    outs[0][1] = 1
            rows.append([a, outs])
        trans.append(rows)
        absorbing.append(1 if kind == "abs" else 0)

    if draw(st.integers(0, 3)) == 0:
        # exact ties: one action of some state becomes a copy of another one (same outcomes, other name)
        cands = [s for s in range(n) if len(trans[s]) >= 2 and kinds[s] == "n"]
        if cands:
            s = cands[draw(st.integers(0, len(cands) - 1))]
            i, j = draw(st.lists(st.integers(0, len(trans[s]) - 1), min_size=2, max_size=2, unique=True))
            trans[s][j][1] = [list(o) for o in trans[s][i][1]]
    k0 = draw(st.integers(1, min(3, n))) if multi_p0 else 1
    p0_states = draw(st.lists(st.integers(0, n - 1), min_size=k0, max_size=k0, unique=True))
    p0 = [[s, draw(st.integers(0 if p0_zero_entries else 1, 3))] for s in p0_states]
    if not any(w > 0 for _, w in p0):
        p0[0][1] = 1

    scheme_s = draw(st.sampled_from(schemes))
    scheme_a = draw(st.sampled_from(schemes))
    perm_s = draw(st.permutations(list(range(n))))
    perm_a = draw(st.permutations(list(range(m))))
    sl = state_labels(scheme_s, n)
    al = action_labels(scheme_a, m)
    if none_action is None:
        # None is a hashable, legal action label for the planners; roll-out based components use None themselves for
        # "no action" (the final step of a trajectory), so there it is outside the input domain
        import os
        none_action = os.environ.get("VPM_PID") in NONE_ACTION_PIDS
    if none_action and draw(st.integers(0, 5)) == 0:
        al[draw(st.integers(0, m - 1))] = None      # None is a hashable, legal action label ("no-op")
    spec = {
        "flavour": flavour, "n": n, "m": m, "gamma": gamma,
        "slabels": [enc(sl[perm_s[i]]) for i in range(n)],
        "alabels": [enc(al[perm_a[i]]) for i in range(m)],
        "trans": trans, "absorbing": absorbing, "p0": p0,
        "explicit_states": None, "explicit_actions": None,
    }
    if extreme and draw(st.integers(0, 2)) == 0:
        # extreme ratios: some outcome becomes ~1e-9..1e-12 as likely as its siblings
        s0 = draw(st.integers(0, n - 1))
        outs = trans[s0][draw(st.integers(0, len(trans[s0]) - 1))][1]
        pos = [o for o in outs if o[1] > 0]
        if len(pos) >= 2 and not (proper and not absorbing[s0]):
            big = pos[draw(st.integers(0, len(pos) - 1))]
            big[1] = big[1] * 10 ** draw(st.sampled_from([9, 10, 12]))
            spec["extreme"] = True
    if allow_explicit and draw(st.integers(0, 3)) == 0:
        spec["explicit_states"] = list(draw(st.permutations(list(range(n)))))
        spec["explicit_actions"] = list(draw(st.permutations(list(range(m)))))
    if normalise:
        normalise_absorbing_successors(spec)
    # how the model functions *represent* their results (all legitimate): absorbing flags as bool / int / numpy bool,
    # action sets as fresh tuples / one shared list object / fresh lists, single-outcome distributions as
    # DictDistribution / DeterministicDistribution, equal-weight ones as UniformDistribution
    spec["repr"] = {"abs": draw(st.sampled_from(["bool", "bool", "int", "npbool"])),
                    "actions": draw(st.sampled_from(["tuple", "tuple", "shared_list", "list"])),
                    "dist": draw(st.sampled_from(["dict", "dict", "auto"]))}
    return spec


@st.composite
def policy_specs(draw, spec, kinds=("stochastic", "stochastic", "deterministic", "sixths")):
    """Per state a weight vector over that state's available actions: [[a, w], ...]."""
    pol = []
    for s in range(spec["n"]):
        acts = [a for a, _ in spec["trans"][s]]
        kind = draw(st.sampled_from(kinds))
        if kind == "deterministic" or len(acts) == 1:
            c = draw(st.integers(0, len(acts) - 1))
            row = [[a, 1 if i == c else 0] for i, a in enumerate(acts)]
        elif kind == "sixths" and len(acts) >= 2:
            # rows like 1/6,1/6,4/6 whose float sum is not exactly 1
            base = [1, 1, 4] if len(acts) >= 3 else [1, 5]
            base = base + [0] * (len(acts) - len(base))
            base = list(draw(st.permutations(base)))
            row = [[a, w] for a, w in zip(acts, base)]
        else:
            ws = [draw(st.integers(0, 5)) for _ in acts]
            if not any(ws):
                ws[0] = 1
            row = [[a, w] for a, w in zip(acts, ws)]
        pol.append(row)
    return pol


# ---------------------------------------------------------------------------------------------
# large instances: Hypothesis draws a handful of parameters, a PRNG seeded by one of them expands them into a full
# spec (the spec that is stored / replayed is the expanded JSON, so replay needs neither Hypothesis nor the PRNG)
# ---------------------------------------------------------------------------------------------
def _expand_large(params):
    import random
    flavour, n, m, out, gamma, kind, seed = params
    r = random.Random(seed)
    proper = flavour in ("ssp", "dproper")
    nabs = 1 if proper else r.choice([0, 0, 1, 2])
    absorbing = [0] * n
    for s in r.sample(range(n), nabs):
        absorbing[s] = 1
    goal = [s for s in range(n) if absorbing[s]]
    order = list(range(n))
    r.shuffle(order)
    if proper:
        # every action moves, with positive probability, to a state later in `order` (the goal is last): all policies proper
        order.remove(goal[0])
        order.append(goal[0])
    pos = {s: i for i, s in enumerate(order)}
    trans = []
    for s in range(n):
        acts = list(range(m)) if kind != "ragged" else sorted(r.sample(range(m), r.randint(1, m)))
        row = []
        for a in acts:
            k = r.randint(1, out)
            if kind == "dense":
                k = max(k, min(n, out))
            tg = r.sample(range(n), min(k, n))
            if proper and not absorbing[s]:
                later = order[pos[s] + 1:]
                if not any(pos[t] > pos[s] for t in tg):
                    tg[0] = r.choice(later)
            if a == acts[0] and not absorbing[s] and pos[s] + 1 < n and order[pos[s] + 1] not in tg:
                tg.append(order[pos[s] + 1])      # a chain through `order` keeps (almost) everything reachable
            if flavour == "negative":
                rew = lambda: r.choice([0, 0, -1, -1, -2, -3])
            elif proper:
                rew = lambda: r.choice([-1, -1, -2, -3, 0])
            else:
                rew = lambda: r.choice([-3, -2, -1, 0, 1, 2, 3])
            outs = [[t, r.choice([1, 1, 1, 2, 3]), rew()] for t in tg]
            if absorbing[s]:
                outs = [[s, 1, 0]]
            row.append([a, outs])
        trans.append(row)
    k0 = r.choice([1, 1, 2, 3])
    p0 = [[s, r.choice([1, 1, 2])] for s in r.sample(range(n), min(k0, n))]
    if order[0] not in [s for s, _ in p0]:
        p0.append([order[0], 1])
    spec = {"n": n, "m": m, "slabels": [enc(x) for x in state_labels_large(n, r)], "alabels": [enc(x) for x in range(m)],
            "trans": trans, "absorbing": absorbing, "p0": p0, "gamma": gamma, "explicit_states": None,
            "explicit_actions": None, "flavour": flavour, "large": True}
    if flavour in ("negative", "discounted", "average") and r.random() < 0.5:
        # the arrays cover every state (explicit list): unreachable parts included
        perm = list(range(n))
        r.shuffle(perm)
        spec["explicit_states"] = perm
        pa = list(range(m))
        r.shuffle(pa)
        spec["explicit_actions"] = pa
    normalise_absorbing_successors(spec)
    return spec


def state_labels_large(n, r):
    kind = r.choice(["int", "str", "tuple"])
    if kind == "int":
        return list(range(n))
    if kind == "str":
        return [f"s{i}" for i in range(n)]
    w = max(2, int(n ** 0.5))
    return [(i // w, i % w) for i in range(n)]


def large_mdp_specs(flavour="discounted", min_states=16, max_states=45, max_actions=3, max_out=4, gammas=None, min_actions=1):
    """MDPs with tens of states (sparse / dense / ragged action sets); proper flavours ('ssp', 'dproper') are built on a
    random order so that every policy reaches the single goal."""
    g = st.just(1.0) if flavour in ("ssp", "negative", "average") else st.sampled_from(gammas or [0.5, 0.9, 0.95, 0.99])
    return st.tuples(st.just(flavour), st.integers(min_states, max_states), st.integers(min_actions, max_actions), st.integers(1, max_out),
                     g, st.sampled_from(["sparse", "sparse", "dense", "ragged"]), st.integers(0, 2 ** 40)).map(_expand_large)


def large_policy(spec, seed):
    """a stochastic policy spec for a large MDP, expanded from a seed (uniform / one-hot / weighted rows)"""
    import random
    r = random.Random(seed)
    style = r.choice(["uniform", "mixed", "mixed", "deterministic"])
    pol = []
    for s in range(spec["n"]):
        acts = [a for a, _ in spec["trans"][s]]
        if style == "uniform":
            row = [[a, 1] for a in acts]
        elif style == "deterministic" or len(acts) == 1:
            c = r.randrange(len(acts))
            row = [[a, 1 if i == c else 0] for i, a in enumerate(acts)]
        else:
            ws = [r.choice([0, 1, 1, 2, 5]) for _ in acts]
            if not any(ws):
                ws[0] = 1
            row = [[a, w] for a, w in zip(acts, ws)]
        pol.append(row)
    return pol
