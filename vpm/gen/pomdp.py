"""POMDP specs: an MDP spec (uniform action sets) + observation kernel.

spec["obs"][a][ns] = [[o, w], ...]  integer weights (0 allowed, >=1 positive); spec["olabels"].
"""
from hypothesis import strategies as st
from vpm.gen.mdp import mdp_specs
from vpm.labels import enc

PGAMMAS = [0.3, 0.5, 0.7, 0.8]


@st.composite
def pomdp_specs(draw, min_states=2, max_states=4, max_actions=3, max_obs=3, revealing=False,
                gammas=None, schemes=("int", "str", "int_gap"), absorbing_kinds=("n", "n", "n", "n", "abs", "imp"),
                flavour="discounted", reward_lo=-3, reward_hi=3, zero_obs=True, extreme=False, uniform_actions=True,
                normalise=True):
    spec = draw(mdp_specs(flavour, min_states=min_states, max_states=max_states, max_actions=max_actions,
                          schemes=schemes, allow_explicit=False, uniform_actions=uniform_actions, normalise=normalise,
                          gammas=gammas or PGAMMAS, absorbing_kinds=absorbing_kinds,
                          reward_lo=reward_lo, reward_hi=reward_hi))
    n, m = spec["n"], spec["m"]
    if revealing:
        k = n
        obs = [[[[ns, 1]] for ns in range(n)] for a in range(m)]
    else:
        k = draw(st.integers(1, max_obs))
        obs = []
        for a in range(m):
            row = []
            for ns in range(n):
                ws = [draw(st.integers(0 if zero_obs else 1, 4)) for _ in range(k)]
                if not any(ws):
                    ws[draw(st.integers(0, k - 1))] = 1
                row.append([[o, w] for o, w in enumerate(ws)])
            obs.append(row)
    if extreme and not revealing and draw(st.integers(0, 2)) == 0:
        # extreme ratios: one observation / transition weight dwarfs the others (probabilities ~1e-9)
        a, ns = draw(st.integers(0, m - 1)), draw(st.integers(0, n - 1))
        row = obs[a][ns]
        j = draw(st.integers(0, len(row) - 1))
        row[j][1] = row[j][1] * 10 ** draw(st.sampled_from([6, 9, 12])) if row[j][1] > 0 else 10 ** 9
        s0 = draw(st.integers(0, n - 1))
        outs = spec["trans"][s0][draw(st.integers(0, len(spec["trans"][s0]) - 1))][1]
        if len(outs) > 1 and not spec["absorbing"][s0]:
            outs[0][1] = max(outs[0][1], 1) * 10 ** draw(st.sampled_from([6, 9]))
        spec["extreme"] = True
    oscheme = draw(st.sampled_from(["int", "str", "int_gap"]))
    spec["k"] = k
    spec["obs"] = obs
    if draw(st.integers(0, 3)) == 0:
        spec["explicit_observations"] = list(draw(st.permutations(list(range(k)))))
    spec["olabels"] = [enc(o if oscheme == "int" else (5 * o - 2 if oscheme == "int_gap" else f"o{o}")) for o in range(k)]
    return spec


@st.composite
def belief_weights(draw, n):
    kind = draw(st.sampled_from(["vertex", "edge", "interior", "any", "skewed"]))
    if kind == "skewed" and n >= 2:
        w = [draw(st.integers(0, 2)) for _ in range(n)]
        w[draw(st.integers(0, n - 1))] = 10 ** draw(st.sampled_from([6, 10, 12]))
        if sum(1 for x in w if x > 0) < 2:
            w[(w.index(max(w)) + 1) % n] = 1
        return w
    if kind == "vertex":
        i = draw(st.integers(0, n - 1))
        return [1 if j == i else 0 for j in range(n)]
    if kind == "edge" and n >= 2:
        i, j = draw(st.lists(st.integers(0, n - 1), min_size=2, max_size=2, unique=True))
        w = [0] * n
        w[i] = draw(st.integers(1, 5))
        w[j] = draw(st.integers(1, 5))
        return w
    lo = 1 if kind == "interior" else 0
    w = [draw(st.integers(lo, 5)) for _ in range(n)]
    if not any(w):
        w[0] = 1
    return w
