"""JSON encoding of hashable labels (states, actions, events, table keys)."""
from frozendict import frozendict


def dec(x):
    """JSON value -> Python hashable."""
    if isinstance(x, dict):
        if "t" in x:
            return tuple(dec(e) for e in x["t"])
        if "fs" in x:
            return frozenset(dec(e) for e in x["fs"])
        if "fd" in x:
            return frozendict({dec(k): dec(v) for k, v in x["fd"]})
        if "f" in x:
            return float(x["f"])
        if "b" in x:
            return bool(x["b"])
        raise ValueError(f"bad label {x}")
    if isinstance(x, list):
        raise ValueError(f"bad label {x}")
    return x  # int, str, None, bool


def enc(o):
    if isinstance(o, bool):
        return {"b": int(o)}
    if o is None or isinstance(o, (int, str)):
        return o
    if isinstance(o, float):
        return {"f": o}
    if isinstance(o, tuple):
        return {"t": [enc(e) for e in o]}
    if isinstance(o, frozenset):
        return {"fs": sorted((enc(e) for e in o), key=repr)}
    if isinstance(o, frozendict):
        return {"fd": [[enc(k), enc(v)] for k, v in sorted(o.items(), key=repr)]}
    raise ValueError(f"cannot encode {o!r}")


def state_labels(scheme, n):
    if scheme == "int":
        return list(range(n))
    if scheme == "str":
        return [f"s{i}" for i in range(n)]
    if scheme == "int_gap":     # integers that are not their own position
        return [2 * i + 1 for i in range(n)]
    if scheme == "tuple":
        return [(i // 2, i % 2) for i in range(n)]
    if scheme == "fd":
        return [frozendict({"x": i // 2, "y": i % 2}) for i in range(n)]
    if scheme == "collide":     # states named like the actions, and states that are (state, action) pairs of those names
        return (["A", "B", ("A", "B"), ("B", "A"), "C", ("A", "A"), ("C", "B"), "D"] + [f"s{i}" for i in range(8, n)])[:n]
    if scheme == "mixed":  # unsortable mix
        out = []
        for i in range(n):
            out.append([i, f"s{i}", (i, "q"), frozendict({"k": i})][i % 4])
        return out
    raise ValueError(scheme)


def action_labels(scheme, m):
    if scheme == "int":
        return list(range(m))
    if scheme == "str":
        return [f"a{i}" for i in range(m)]
    if scheme == "int_gap":     # integers that are not their own position (e.g. moves -1, +2, +5)
        return [3 * i - 1 for i in range(m)]
    if scheme == "tuple":
        return [(i, -i) for i in range(m)]
    if scheme == "fd":
        return [frozendict({"dx": i, "dy": 0}) for i in range(m)]
    if scheme == "collide":
        return (["A", "B", "C", "D", "E"] + [f"a{i}" for i in range(5, m)])[:m]
    if scheme == "mixed":
        return [[i, f"a{i}", (i,)][i % 3] for i in range(m)]
    raise ValueError(scheme)
