"""C06 — matrix, table and wrapper views of an MDP agree with its functional definition."""
import numpy as np
from hypothesis import strategies as st

from vpm.core import Prop, close
from vpm.gen.mdp import mdp_specs
from vpm.build import build_mdp
from vpm.ref.mdp import RefMDP, closure

PROPERTY_ID = "C06"
FUZZ = {"props": ["views", "roundtrip", "reach"], "quick": [3, 800], "thorough": [8, 30000]}
RULE = ("MDP specs with labels of mixed kinds (ints, strings, tuples, frozendicts, unsortable mixes), inferred or "
        "explicit state/action lists, zero-probability entries in next-state and initial distributions, "
        "state-dependent action sets, explicit and implicit absorbing states; max_states cut-offs 1..|S|+1. "
        "Oracle: the spec itself (nested lists owned by the generator). Non-trivial: some unavailable action and "
        "(zero-probability entry or implicit absorbing state or unsortable labels) for the matrix functions; for "
        "reachability an absorbing state with outgoing transitions or a zero-probability successor; distinct by "
        "spec hash."
        ' Also: MDPs of 16-45 states (views and round trips), None / gapped-integer labels, int / numpy-bool absorbing flags.'
        ' 101-120-state problems; vocabularies in which states are named like actions or are (state, action) pairs.')
ASSUMPTIONS = ["state/action list order is unspecified by the docstring: only set equality / equality with the "
               "explicit list is asserted", "for max_states below the closure size only soundness (superset of the "
               "initial support, subset of the closure) is asserted"]

SCHEMES = ("int", "str", "tuple", "fd", "mixed", "collide", "int_gap")


def matrix_cases(tier):
    big = tier == "thorough"
    return st.one_of(
        mdp_specs("discounted", max_states=6 if big else 5, schemes=SCHEMES, p0_zero_entries=True),
        mdp_specs("discounted", max_states=6 if big else 5, schemes=SCHEMES, p0_zero_entries=True, extreme=True),
        mdp_specs("negative", max_states=6 if big else 5, schemes=SCHEMES, p0_zero_entries=True),
        # absorbing states whose successors lie outside the (inferred) state list: rows left out of the arrays
        mdp_specs("discounted", min_states=3, max_states=6 if big else 5, schemes=SCHEMES, normalise=False, allow_explicit=False,
                  absorbing_kinds=("n", "n", "n", "abs", "abs")),
    )


def large_matrix_cases(tier):
    """16-45 states (sparse / dense / ragged action sets; inferred and explicit state lists)"""
    from vpm.gen.mdp import large_mdp_specs
    return st.one_of(large_mdp_specs("discounted"), large_mdp_specs("negative"), large_mdp_specs("dproper"),
                     large_mdp_specs("discounted", min_states=101, max_states=120, max_actions=2, max_out=2))


def _vi(mdp):
    from msdm.algorithms.valueiteration import ValueIteration
    return ValueIteration(max_residual=1e-8).plan_on(mdp)


def check_views(ctx, spec, mdp, view, ref, tag):
    n, m = ref.n, ref.m
    S, A = view.S, view.A
    sl = list(mdp.state_list)
    al = list(mdp.action_list)
    ctx.check(len(set(sl)) == len(sl), f"C06.{tag}.state_list_no_duplicates", lambda: f"{sl}")
    ctx.check(len(set(al)) == len(al), f"C06.{tag}.action_list_no_duplicates", lambda: f"{al}")
    if spec["explicit_states"] is not None:
        ctx.check(sl == [S[i] for i in spec["explicit_states"]], f"C06.{tag}.explicit_state_list_kept", lambda: f"{sl}")
        ctx.check(al == [A[i] for i in spec["explicit_actions"]], f"C06.{tag}.explicit_action_list_kept", lambda: f"{al}")
    else:
        want = {S[i] for i in closure(spec)}
        ctx.check(set(sl) == want, f"C06.{tag}.state_list_is_reachable_closure",
                  lambda: f"state_list {sl} closure {sorted(want, key=repr)}")
        wa = {A[a] for s in sl for a in view.avail[view.sidx[s]]}
        ctx.check(set(al) == wa, f"C06.{tag}.action_list_is_union_of_actions", lambda: f"{al} vs {wa}")
    if not set(sl) <= set(S):
        return None
    si = [view.sidx[s] for s in sl]
    ai = [view.aidx[a] for a in al]
    T = ctx.call(f"C06.{tag}.transition_matrix_raises", lambda: mdp.transition_matrix)
    Rm = ctx.call(f"C06.{tag}.reward_matrix_raises", lambda: mdp.reward_matrix)
    Am = mdp.action_matrix
    sar = mdp.state_action_reward_matrix
    p0 = mdp.initial_state_vec
    ab = mdp.absorbing_state_vec
    ctx.check(T.shape == (len(sl), len(al), len(sl)), f"C06.{tag}.transition_matrix_shape")
    inside = set(si)
    for i, s in enumerate(si):
        for j, a in enumerate(ai):
            ctx.check(Am[i, j] == (1 if ref.avail[s, a] else 0), f"C06.{tag}.action_matrix",
                      lambda: f"state {s} action {a}: {Am[i, j]}")
            for k, ns in enumerate(si):
                ctx.check(T[i, j, k] == ref.T[s, a, ns], f"C06.{tag}.transition_matrix_cell",
                          lambda: f"T[{s},{a},{ns}] = {T[i, j, k]} expected {ref.T[s, a, ns]}")
                ctx.check(Rm[i, j, k] == ref.R[s, a, ns], f"C06.{tag}.reward_matrix_cell",
                          lambda: f"R[{s},{a},{ns}] = {Rm[i, j, k]} expected {ref.R[s, a, ns]}")
            exp = sum(ref.T[s, a, ns] * ref.R[s, a, ns] for ns in si)
            ctx.check(close(float(sar[i, j]), float(exp), 1e-12, 1e-12), f"C06.{tag}.state_action_reward_matrix",
                      lambda: f"SAR[{s},{a}] = {sar[i, j]} expected {exp}")
        ctx.check(p0[i] == ref.p0[s], f"C06.{tag}.initial_state_vec", lambda: f"p0[{s}] = {p0[i]} expected {ref.p0[s]}")
        ctx.check(bool(ab[i]) == bool(ref.absorbing[s]), f"C06.{tag}.absorbing_state_vec",
                  lambda: f"absorbing[{s}] = {ab[i]} expected {ref.absorbing[s]} (explicit {ref.explicit_abs[s]}, implicit {ref.implicit_abs[s]})")
    return T, Rm, Am, sar, p0, ab, sl, al


def prop_views(spec, ctx):
    mdp, view = build_mdp(spec)
    ref = RefMDP(spec)
    out = check_views(ctx, spec, mdp, view, ref, "views")
    if out is None:
        return
    T, Rm, Am, sar, p0, ab, sl, al = out
    # tables equal arrays, addressed by label
    tt, rt, sart = mdp.transition_table, mdp.reward_table, mdp.state_action_reward_table
    for i, s in enumerate(sl):
        for j, a in enumerate(al):
            cell = ctx.call("C06.tables.read_raises", lambda: sart[s][a])
            ctx.check(np.ndim(cell) == 0 and float(cell) == sar[i, j], "C06.tables.state_action_reward_table", lambda: f"{s},{a}: {cell!r}")
            if (s, a) not in sl:       # (a key that is itself a state selects that state's row: C12)
                cell2 = ctx.call("C06.tables.read_raises", lambda: sart[s, a])
                ctx.check(np.ndim(cell2) == 0 and float(cell2) == sar[i, j], "C06.tables.state_action_reward_table", lambda: f"{s},{a}: {cell2!r}")
            else:
                row = ctx.call("C06.tables.read_raises", lambda: sart[(s, a)])
                ii = sl.index((s, a))
                ctx.check(np.ndim(row) == 1 and [float(row[b]) for b in al] == [float(x) for x in sar[ii]],
                          "C06.tables.state_key_that_looks_like_a_state_action_pair", lambda: f"sart[{(s, a)!r}] = {row!r}")
            for k, ns in enumerate(sl):
                c1 = ctx.call("C06.tables.read_raises", lambda: tt[s][a][ns])
                c2 = ctx.call("C06.tables.read_raises", lambda: rt[s][a][ns])
                ctx.check(np.ndim(c1) == 0 and float(c1) == T[i, j, k], "C06.tables.transition_table", lambda: f"{s},{a},{ns}")
                ctx.check(np.ndim(c2) == 0 and float(c2) == Rm[i, j, k], "C06.tables.reward_table", lambda: f"{s},{a},{ns}")
    unav = bool((~ref.avail[[view.sidx[s] for s in sl]][:, [view.aidx[a] for a in al]]).any()) if sl and al else False
    zero_entry = any(w == 0 for s in range(ref.n) for _, outs in spec["trans"][s] for _, w, _ in outs) or \
        any(w == 0 for _, w in spec["p0"])
    unsortable = False
    try:
        sorted(view.S)
    except TypeError:
        unsortable = True
    if unsortable:
        ctx.event("unsortable_labels")
    if zero_entry:
        ctx.event("zero_probability_entry")
    if ref.implicit_abs.any():
        ctx.event("implicit_absorbing")
    if spec["explicit_states"] is not None:
        ctx.event("explicit_lists")
    ctx.nontrivial(unav and (zero_entry or bool(ref.implicit_abs.any()) or unsortable))


def prop_roundtrip(spec, ctx):
    from msdm.core.mdp import TabularMarkovDecisionProcess, QuickTabularMDP, QuickMDP
    mdp, view = build_mdp(spec)
    ref = RefMDP(spec)
    sl, al = mdp.state_list, mdp.action_list
    mats = dict(
        state_list=sl, action_list=al, initial_state_vec=mdp.initial_state_vec,
        transition_matrix=mdp.transition_matrix, action_matrix=mdp.action_matrix,
        reward_matrix=mdp.reward_matrix, absorbing_state_vec=mdp.absorbing_state_vec,
        discount_rate=mdp.discount_rate)
    m2 = ctx.call("C06.roundtrip.from_matrices_raises", TabularMarkovDecisionProcess.from_matrices, **mats)
    q = QuickTabularMDP(next_state_dist=mdp.next_state_dist, reward=mdp.reward, actions=mdp.actions,
                        initial_state_dist=mdp.initial_state_dist, is_absorbing=mdp.is_absorbing,
                        discount_rate=mdp.discount_rate)
    if spec["explicit_states"] is not None:
        q._state_list = mdp.state_list
        q._action_list = mdp.action_list
    r1 = ctx.call("C06.roundtrip.plan_original_raises", _vi, mdp)
    for tag, other in (("from_matrices", m2), ("quick", q)):
        osl = ctx.call(f"C06.roundtrip.{tag}.state_list_raises", lambda: list(other.state_list))
        oal = list(other.action_list)
        if tag == "from_matrices":
            ctx.check(osl == list(sl), f"C06.roundtrip.{tag}.state_list", lambda: f"{osl} vs {list(sl)}")
            ctx.check(oal == list(al), f"C06.roundtrip.{tag}.action_list", lambda: f"{oal} vs {list(al)}")
        else:
            ctx.check(set(osl) == set(sl) and len(osl) == len(sl), f"C06.roundtrip.{tag}.state_list", lambda: f"{osl} vs {list(sl)}")
            ctx.check(set(oal) == set(al) and len(oal) == len(al), f"C06.roundtrip.{tag}.action_list", lambda: f"{oal} vs {list(al)}")
        if set(osl) != set(sl) or set(oal) != set(al):
            continue
        ps = [osl.index(s) for s in sl]
        pa = [oal.index(a) for a in al]
        ctx.check(other.discount_rate == mdp.discount_rate, f"C06.roundtrip.{tag}.discount_rate")
        oT = ctx.call(f"C06.roundtrip.{tag}.matrices_raise", lambda: other.transition_matrix)
        for nm in ("transition_matrix", "reward_matrix"):
            a1 = getattr(mdp, nm)
            a2 = getattr(other, nm)[np.ix_(ps, pa, ps)]
            ctx.check(a1.shape == a2.shape and bool((a1 == a2).all()), f"C06.roundtrip.{tag}.{nm}",
                      lambda: f"{a1.tolist()} vs {a2.tolist()}")
        for nm in ("action_matrix", "state_action_reward_matrix"):
            a1 = getattr(mdp, nm)
            a2 = getattr(other, nm)[np.ix_(ps, pa)]
            ctx.check(bool((a1 == a2).all()), f"C06.roundtrip.{tag}.{nm}", lambda: f"{a1.tolist()} vs {a2.tolist()}")
        for nm in ("initial_state_vec", "absorbing_state_vec"):
            a1 = getattr(mdp, nm)
            a2 = getattr(other, nm)[ps]
            ctx.check(bool((a1 == a2).all()), f"C06.roundtrip.{tag}.{nm}", lambda: f"{a1.tolist()} vs {a2.tolist()}")
        r2 = ctx.call(f"C06.roundtrip.{tag}.plan_raises", _vi, other)
        for s in sl:
            v1, v2 = float(r1.state_value[s]), float(r2.state_value[s])
            ctx.check(close(v1, v2, 1e-12, 1e-12), f"C06.roundtrip.{tag}.planning_values", lambda: f"{s}: {v1} vs {v2}")
            d1 = {a: float(p) for a, p in r1.policy.action_dist(s).items() if p > 0}
            d2 = {a: float(p) for a, p in r2.policy.action_dist(s).items() if p > 0}
            ctx.check(d1 == d2, f"C06.roundtrip.{tag}.planning_policy", lambda: f"{s}: {d1} vs {d2}")
        ctx.check(close(float(r1.initial_value), float(r2.initial_value), 1e-12, 1e-12),
                  f"C06.roundtrip.{tag}.planning_initial_value")
    # non-tabular quick wrapper: functional equality
    qm = QuickMDP(next_state_dist=mdp.next_state_dist, reward=mdp.reward, actions=mdp.actions,
                  initial_state_dist=mdp.initial_state_dist, is_absorbing=mdp.is_absorbing,
                  discount_rate=mdp.discount_rate)
    ctx.check(qm.discount_rate == mdp.discount_rate, "C06.roundtrip.quickmdp.discount_rate")
    ctx.check(dict(qm.initial_state_dist().items()) == dict(mdp.initial_state_dist().items()),
              "C06.roundtrip.quickmdp.initial_state_dist")
    for s in sl:
        ctx.check(tuple(qm.actions(s)) == tuple(mdp.actions(s)), "C06.roundtrip.quickmdp.actions")
        ctx.check(bool(qm.is_absorbing(s)) == bool(mdp.is_absorbing(s)), "C06.roundtrip.quickmdp.is_absorbing")
        for a in mdp.actions(s):
            d1 = dict(qm.next_state_dist(s, a).items())
            d2 = dict(mdp.next_state_dist(s, a).items())
            ctx.check(d1 == d2, "C06.roundtrip.quickmdp.next_state_dist")
            for ns, p in d2.items():
                if p > 0:
                    ctx.check(qm.reward(s, a, ns) == mdp.reward(s, a, ns), "C06.roundtrip.quickmdp.reward")
    ctx.nontrivial(len(sl) >= 3 and len(al) >= 2 and not ref.avail.all())


@st.composite
def reach_cases(draw, tier="quick"):
    big = tier == "thorough"
    spec = draw(st.one_of(
        mdp_specs("discounted", max_states=7 if big else 6, schemes=SCHEMES, p0_zero_entries=True,
                  normalise=False, allow_explicit=False,
                  absorbing_kinds=("n", "n", "n", "abs", "abs", "imp")),
    ))
    ms = draw(st.one_of(st.none(), st.integers(1, spec["n"] + 1)))
    return {"mdp": spec, "max_states": ms}


def prop_reach(case, ctx):
    spec, ms = case["mdp"], case["max_states"]
    from msdm.core.mdp import QuickMDP
    tab, view = build_mdp(spec)
    mdp = QuickMDP(next_state_dist=tab.next_state_dist, reward=tab.reward, actions=tab.actions,
                   initial_state_dist=tab.initial_state_dist, is_absorbing=tab.is_absorbing,
                   discount_rate=tab.discount_rate)
    S = view.S
    full = {S[i] for i in closure(spec)}
    init = {S[s] for s, w in spec["p0"] if w > 0}
    got_all = ctx.call("C06.reach.raises", mdp.reachable_states)
    ctx.check(set(got_all) == full, "C06.reach.equals_closure",
              lambda: f"reachable_states() = {sorted(got_all, key=repr)}; closure (absorbing states not expanded) = {sorted(full, key=repr)}")
    if ms is not None:
        got = ctx.call("C06.reach.raises", mdp.reachable_states, max_states=ms)
        ctx.check(init <= set(got), "C06.reach.cutoff_contains_initial_support", lambda: f"{got} vs {init}")
        ctx.check(set(got) <= full, "C06.reach.cutoff_subset_of_closure",
                  lambda: f"max_states={ms}: {sorted(got, key=repr)} not within {sorted(full, key=repr)}")
        if ms >= len(full):
            ctx.check(set(got) == full, "C06.reach.cutoff_large_equals_closure", lambda: f"{got} vs {full}")
    # tabular state list for the same functions
    sl = ctx.call("C06.reach.state_list_raises", lambda: list(tab.state_list))
    ctx.check(set(sl) == full and len(sl) == len(full), "C06.reach.state_list_is_closure",
              lambda: f"state_list {sl}; closure {sorted(full, key=repr)}")
    abs_with_out = any(spec["absorbing"][s] and any(ns != s and w > 0 for _, outs in spec["trans"][s] for ns, w, _ in outs)
                       for s in closure(spec))
    zero_succ = any(w == 0 for s in closure(spec) for _, outs in spec["trans"][s] for _, w, _ in outs)
    init_abs = any(spec["absorbing"][s] for s, w in spec["p0"] if w > 0)
    if init_abs:
        ctx.event("absorbing_initial_state")
    ctx.nontrivial(abs_with_out or zero_succ)


PROPS = [
    Prop("views", matrix_cases, prop_views, quick=2500, thorough=150000,
         doc="state/action lists, arrays and tables vs the spec, cell by cell"),
    Prop("roundtrip", matrix_cases, prop_roundtrip, quick=600, thorough=36000,
         doc="from_matrices / QuickTabularMDP / QuickMDP round trips incl. planning results"),
    Prop("views_large", large_matrix_cases, prop_views, quick=100, thorough=6000,
         doc="the array / table views on MDPs with 16-45 states"),
    Prop("roundtrip_large", large_matrix_cases, prop_roundtrip, quick=40, thorough=2400,
         doc="the round trips on MDPs with 16-45 states"),
    Prop("reach", lambda tier: reach_cases(tier), prop_reach, quick=2500, thorough=150000,
         doc="reachable_states (with max_states) and inferred state_list vs closure"),
]
