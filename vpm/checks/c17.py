"""C17 — R-MAX stays optimistic about what it has not tried often enough."""
import signal
import numpy as np
from hypothesis import strategies as st

from vpm.core import Prop, Inconclusive
from vpm.gen.mdp import mdp_specs
from vpm.build import build_mdp
from vpm.ref.mdp import RefMDP

PROPERTY_ID = "C17"
RULE = ("Episodic discounted MDP specs with uniform action sets (gamma in {.5,.8,.9}, stochastic transitions, rewards "
        "of either sign, inferred or explicit state lists - explicit ones may list unreachable states, as GridWorld "
        "does for walls) x sample threshold 1-5 x 1-10 episodes x seed x Bellman tolerance; rmax = "
        "reward_matrix.max() (R-MAX's own precondition). A recording listener captures the history; the empirical "
        "model of the first m samples per pair is rebuilt independently. Non-trivial: some pair reached the "
        "threshold and some did not, and >=2 episodes; distinct by spec hash."
        ' Also: rmax given as float32 / float64 / int, reward ranges of +-90, the object-reuse relation in both directions (policy included).'
        ' Sample thresholds of 256-300 with 700-1000 episodes.')
ASSUMPTIONS = ["history observed through the public event_listener_class hook",
               "a 30 s alarm around train_on turns a non-terminating inner loop into 'inconclusive'"]

MAX_STEPS = 50000


@st.composite
def cases(draw, tier="quick"):
    big = draw(st.integers(0, 3)) == 0   # reward ranges of ~100 make the inner value iteration long
    spec = draw(mdp_specs("dproper", min_states=2, max_states=6 if tier == "thorough" else 5, uniform_actions=True,
                          gammas=[0.5, 0.8, 0.9], absorbing_kinds=("n", "n", "n", "n", "abs"), allow_explicit=True,
                          reward_lo=-90 if big else None, reward_hi=90 if big else None))
    m_, eps_ = draw(st.integers(1, 5)), draw(st.integers(1, 10))
    if draw(st.integers(0, 59)) == 0:
        # a sample threshold beyond one byte, and a run long enough for a pair to reach it
        spec = draw(mdp_specs("dproper", min_states=2, max_states=2, max_actions=2, uniform_actions=True, gammas=[0.5, 0.8],
                              absorbing_kinds=("n", "abs"), allow_explicit=False))
        m_, eps_ = draw(st.sampled_from([256, 257, 300])), draw(st.sampled_from([700, 1000]))
    elif draw(st.integers(0, 7)) == 0:
        # gadget: the empirical model of one pair partly *coincides with its optimistic prior* - a likely self-loop whose
        # m sampled rewards add up to rmax (or whose mean is rmax), in a short run where it is often the last pair to
        # become known. Parametrised by the host problem, the pair, the threshold, the loop weight and the reward unit.
        m_, eps_ = draw(st.integers(2, 4)), draw(st.integers(1, 3))
        k = draw(st.sampled_from([1, 2, 3]))
        top = m_ * k
        r_self = draw(st.sampled_from([k, k, top]))
        cand = [s for s in range(spec["n"]) if not spec["absorbing"][s] and any(o[0] != s and o[1] > 0 for _, outs in spec["trans"][s] for o in outs)]
        starts = [s for s, w in spec["p0"] if w > 0 and s in cand]
        if cand:
            s0 = draw(st.sampled_from(starts or cand))
            for s in range(spec["n"]):
                for _, outs in spec["trans"][s]:
                    for o in outs:
                        o[2] = min(o[2], top)
            rows = spec["trans"][s0]
            outs = rows[draw(st.integers(0, len(rows) - 1))][1]
            outs[:] = [o for o in outs if o[0] != s0] + [[s0, draw(st.sampled_from([6, 12, 40])), r_self]]
            other = [o for _, oo in rows for o in oo if o[0] != s0 and o[1] > 0]
            other[draw(st.integers(0, len(other) - 1))][2] = top          # some transition pays rmax = m * k
            if not starts:
                spec["p0"] = [[s0, 1]]
    return {"mdp": spec, "m": m_, "episodes": eps_,
            "seed": draw(st.one_of(st.sampled_from([0, 1, 2 ** 31 - 1]), st.integers(0, 10 ** 6))),
            "diff": draw(st.sampled_from([1e-3, 1e-6])),
            # the number type of the rmax hyper-parameter (e.g. R.max() of a float32 reward table, or a plain int)
            "rmax_type": draw(st.sampled_from(["float", "float", "float32", "float64", "int"]))}


class _Timeout(Exception):
    pass


def prop_rmax(case, ctx):
    import msdm.algorithms.rmax as rm
    spec = case["mdp"]
    mdp, view = build_mdp(spec)
    ref = RefMDP(spec)
    S, A, sidx, aidx = view.S, view.A, view.sidx, view.aidx
    gamma = ref.gamma
    sl = list(mdp.state_list)
    al = list(mdp.action_list)
    rmax = float(np.max(mdp.reward_matrix))
    log = []

    class Recorder(rm.RMAXEventListener):
        def __init__(self):
            pass

        def end_of_timestep(self, lv):
            if len(log) > MAX_STEPS:
                raise Inconclusive("step budget")
            log.append(("step", lv["s"], lv["a"], lv["r"], lv["ns"]))

        def end_of_episode(self, lv):
            log.append(("end", lv["s"]))

        def results(self):
            return None

    rt = case.get("rmax_type", "float")      # (generated rewards are integers: every representation is exact)
    rmax_arg = {"float32": np.float32, "float64": np.float64, "int": int}.get(rt, float)(rmax) if float(rmax).is_integer() else rmax
    learner = rm.RMAX(episodes=case["episodes"], rmax=rmax_arg, num_transition_samples=case["m"],
                      bellman_convergence_diff=case["diff"], seed=case["seed"], event_listener_class=Recorder)

    def on_alarm(signum, frame):
        raise _Timeout()
    old = signal.signal(signal.SIGALRM, on_alarm)
    signal.setitimer(signal.ITIMER_REAL, 30.0)
    try:
        res = ctx.call("C17.train_raises", learner.train_on, mdp)
    except _Timeout:
        raise Inconclusive("train_on did not finish in 30 s")
    finally:
        signal.setitimer(signal.ITIMER_REAL, 0)
        signal.signal(signal.SIGALRM, old)
    q = res.q_values
    absorbing = lambda s: bool(spec["absorbing"][sidx[s]])
    # (1) step validity
    prev = None
    neps = 0
    for rec in log:
        if rec[0] == "end":
            neps += 1
            if prev is not None:
                ctx.check(absorbing(prev[4]), "C17.episode_ends_only_at_absorbing", lambda: f"{prev}")
            prev = None
            continue
        _, s, a, r, ns = rec
        ctx.check(not absorbing(s), "C17.step_from_absorbing_state", lambda: f"{s}")
        ctx.check(a in mdp.actions(s), "C17.step_unavailable_action", lambda: f"{s},{a}")
        ctx.check(ref.T[sidx[s], aidx[a], sidx[ns]] > 0, "C17.step_impossible_transition", lambda: f"{s},{a},{ns}")
        ctx.check(r == ref.R[sidx[s], aidx[a], sidx[ns]], "C17.step_reward", lambda: f"{s},{a},{ns}: {r}")
        if prev is not None:
            ctx.check(prev[4] == s and not absorbing(prev[4]), "C17.steps_chain", lambda: f"{prev} then {rec}")
        else:
            ctx.check(s in [S[x] for x, w in spec["p0"] if w > 0], "C17.episode_starts_in_initial_support", lambda: f"{s}")
        prev = rec
    ctx.check(neps == case["episodes"], "C17.episode_count")
    # empirical model of the first m samples of each pair
    m = case["m"]
    samples = {}
    for rec in log:
        if rec[0] != "step":
            continue
        _, s, a, r, ns = rec
        lst = samples.setdefault((s, a), [])
        if len(lst) < m:
            lst.append((r, ns))
    opt = rmax / (1 - gamma)
    ctx.check(set(q.keys()) == set(sl), "C17.q_keys", lambda: f"{list(q.keys())} vs {sl}")
    known = unknown = 0
    for s in sl:
        if s not in q:
            continue
        ctx.check(set(q[s].keys()) == set(al), "C17.q_action_keys", lambda: f"{s}: {list(q[s].keys())}")
        for a in al:
            v = float(q[s][a])
            ctx.check(v <= opt + 1e-9 * (1 + abs(opt)), "C17.q_exceeds_optimistic_bound", lambda: f"Q[{s}][{a}]={v} > {opt}")
            n_tried = len(samples.get((s, a), []))
            if n_tried < m:
                unknown += 1
                ctx.check(v == opt, "C17.untried_pair_not_optimistic",
                          lambda: f"Q[{s}][{a}]={v}, tried {n_tried} < m={m}, optimistic value {opt}")
            else:
                known += 1
                smp = samples[(s, a)]
                rhat = sum(r for r, _ in smp) / m
                fut = sum(max(float(x) for x in q[ns].values()) for _, ns in smp) / m
                backup = rhat + gamma * fut
                ctx.check(abs(v - backup) <= case["diff"] + 1e-9 * (1 + abs(backup)), "C17.empirical_bellman_equation",
                          lambda: f"Q[{s}][{a}]={v}, empirical backup {backup} (first {m} samples {smp}), tolerance {case['diff']}")
    # (4) greedy policy
    for s in sl:
        if s not in q:
            continue
        got = {a: p for a, p in res.policy.action_dist(s).items() if p > 0}
        mx = max(float(x) for x in q[s].values())
        want = {a for a in q[s] if float(q[s][a]) == mx}
        ctx.check(set(got) == want and all(abs(p - 1 / len(want)) <= 1e-12 for p in got.values()), "C17.policy_greedy",
                  lambda: f"state {s}: policy {got}, Q {q[s]}")
    if spec["explicit_states"] is not None:
        ctx.event("explicit_state_list")
        if len(sl) > len(mdp.reachable_states()):
            ctx.event("explicit_list_with_unreachable_state")
    ctx.nontrivial(known > 0 and unknown > 0 and case["episodes"] >= 2)


@st.composite
def reuse_cases(draw, tier="quick"):
    kw = dict(min_states=2, max_states=5, uniform_actions=True, gammas=[0.5, 0.8], absorbing_kinds=("n", "n", "n", "abs"),
              allow_explicit=False, schemes=("int",))
    return {"a": draw(mdp_specs("dproper", **kw)), "b": draw(mdp_specs("dproper", **kw)), "m": draw(st.integers(1, 3)),
            "episodes": draw(st.integers(1, 5)), "seed": draw(st.integers(0, 10 ** 6))}


def prop_reuse(case, ctx):
    import msdm.algorithms.rmax as rm
    from vpm.checks.reuse import check_reuse
    ma, _ = build_mdp(case["a"])
    mb, _ = build_mdp(case["b"])

    def run(_unused, mdp):
        # rmax is a constructor argument that must equal the problem's maximal reward: one learner per problem pair
        return None
    # R-MAX asserts rmax == reward_matrix.max(), so an object can only be reused on problems with the same maximum
    ra, rb = float(np.max(ma.reward_matrix)), float(np.max(mb.reward_matrix))
    if ra != rb:
        from vpm.core import Rejected
        raise Rejected("different rmax")
    make = lambda: rm.RMAX(episodes=case["episodes"], rmax=rb, num_transition_samples=case["m"], seed=case["seed"])
    from vpm.checks.reuse import policy_table
    check_reuse(ctx, "C17.reuse", make, lambda l, m: l.train_on(m),
                lambda r, m: {"q": r.q_values, "pi": policy_table(r.policy, list(m.state_list))}, ma, mb)
    ctx.nontrivial(case["a"] != case["b"])


PROPS = [Prop("reuse", lambda tier: reuse_cases(tier), prop_reuse, quick=400, thorough=24000,
              doc="an RMAX object reused on a second MDP (same rmax) gives the same result as a fresh one"),
         Prop("rmax", lambda tier: cases(tier), prop_rmax, quick=5000, thorough=300000,
              doc="recorded history valid; optimism for under-sampled pairs; empirical Bellman equation; greedy policy")]
