"""C04 — LRTDP stays an upper bound and ends within the error margin of optimal."""
import math
import numpy as np
from hypothesis import strategies as st

from vpm.core import Prop, Inconclusive
from vpm.gen.mdp import mdp_specs
from vpm.build import build_mdp
from vpm.ref.mdp import RefMDP
from vpm.checks.c03 import heuristic_specs, make_heuristic, policy_closure

PROPERTY_ID = "C04"
FUZZ = {"props": ["lrtdp"], "quick": [2, 800], "thorough": [8, 30000]}
RULE = ("Proper MDP specs (every policy reaches an explicitly absorbing state w.p.1; gamma=1 or <1; p_min>=1/4), "
        "initial distributions that put mass on absorbing states, stochastic branching x admissible heuristic "
        "(constant bound, exact, exact + slack incl. positive values at absorbing states) x error margin in "
        "{1e-1,1e-2,1e-4} x seed x randomize_action_order. Oracle: policy-enumeration V*, expected step count and "
        "exact return of the returned greedy policy; listener invariant V >= V* at every trial end. Non-trivial: "
        ">=2 trials, a stochastic action on the policy's closure and an inexact heuristic; distinct by spec hash."
        " Also: MDPs of 16-45 states; margins down to 1e-9 and 0 and up to 1.0; heuristics loose by less than the margin; ties relative to the heuristic; a gadget with a labelled state shared by two branches; history invariant on recorded action orders; consistency of the returned policy's whole closure to within the margin."
        ' 520-640-state problems and a toll-road gadget (one check-solved pass over more than 500 states).')
ASSUMPTIONS = ["a deterministic budget of 200000 trial steps marks a run inconclusive",
               "reference V*, N_pi, J_pi from numpy linear solves on <=6 states"]
TOL = 1e-9


@st.composite
def cases(draw, tier="quick"):
    big = tier == "thorough"
    spec = draw(st.one_of(
        mdp_specs("ssp", min_states=2, max_states=6 if big else 5, allow_explicit=False,
                  absorbing_kinds=("n", "n", "n", "n", "abs")),
        mdp_specs("dproper", min_states=2, max_states=6 if big else 5, allow_explicit=False,
                  absorbing_kinds=("n", "n", "n", "n", "abs")),
    ))
    if draw(st.integers(0, 2)) == 0:
        # tie-prone family: undiscounted, unit-ish integer costs, mostly deterministic moves, integer heuristic slack and
        # randomised action order - exact ties between a solved branch and an optimistically valued unexplored one
        spec = draw(mdp_specs("ssp", min_states=3, max_states=6 if big else 5, allow_explicit=False, zero_weights=False,
                              max_out=draw(st.sampled_from([1, 1, 2])),
                              absorbing_kinds=("n", "n", "n", "n", "abs"), reward_values=[-1, -1, -2, 0]))
        if draw(st.booleans()):
            # graft a fork in front of the MDP: a new start state with two sure moves into two new states that continue
            # into the generated part; with the tie-forcing heuristic the worse branch looks exactly as good as the better
            # one until it is expanded
            from vpm.labels import enc
            n0, m0 = spec["n"], spec["m"]
            if m0 < 2:
                spec["m"] = 2
                spec["alabels"] = [enc(x) for x in (["a0", "a1"] if isinstance(spec["alabels"][0], str) else [0, 1])]
            targets = [s for s in range(n0)]
            u, v = draw(st.sampled_from(targets)), draw(st.sampled_from(targets))
            cu, cv = draw(st.sampled_from([-1, -2, -3, -6])), draw(st.sampled_from([-1, -2, -3, -6]))
            acts = [0, 1] if draw(st.booleans()) else [1, 0]
            spec["trans"] += [[[acts[0], [[u, 1, cu]]], [acts[1], [[u, 1, cu]]]],          # x
                              [[acts[0], [[v, 1, cv]]], [acts[1], [[v, 1, cv]]]],          # y
                              [[acts[0], [[n0, 1, -1]]], [acts[1], [[n0 + 1, 1, -1]]]]]    # new start: first action -> x, second -> y
            spec["absorbing"] += [0, 0, 0]
            lab = (lambda i: f"g{i}") if isinstance(spec["slabels"][0], str) else (lambda i: 1000 + i)
            spec["slabels"] += [enc(lab(0)), enc(lab(1)), enc(lab(2))]
            spec["n"] = n0 + 3
            spec["p0"] = [[n0 + 2, 1]]
            return {"mdp": spec, "heuristic": {"kind": "tie", "slack": [0] * spec["n"], "const_extra": 0},
                    "margin": draw(st.sampled_from([1e-1, 1e-2, 1e-4])), "seed": draw(st.integers(0, 10 ** 6)),
                    "randomize_action_order": True}
        return {"mdp": spec, "heuristic": {"kind": draw(st.sampled_from(["const", "slack", "tie", "tie"])),
                                           "slack": [draw(st.sampled_from([0, 1, 2])) for _ in range(spec["n"])],
                                           "const_extra": draw(st.sampled_from([0, 1]))},
                "margin": draw(st.sampled_from([1e-1, 1e-2, 1e-4])), "seed": draw(st.integers(0, 10 ** 6)),
                "randomize_action_order": True}
    if draw(st.integers(0, 7)) == 0:
        # gadget: a state x that gets labelled with a non-zero residual is shared by two branches (s and y) that are checked
        # at different times; at s a second action (sure move to an expensive state b) is exactly tied *under the heuristic*
        # with the verified one. Anything that lets labelled values drift, or labels too early, flips s to the unverified
        # action. Parametrised by costs, branching weights, looseness and margin.
        cx, cb, cz = draw(st.sampled_from([-1, -2])), draw(st.sampled_from([-5, -8, -3.5])), draw(st.sampled_from([-1, -2, -1.5]))
        w1, w2 = draw(st.sampled_from([(1, 1), (1, 2), (2, 1)]))
        delta = draw(st.sampled_from([0.1, 0.2, 0.25]))
        a1, a2 = draw(st.sampled_from([(0, 1), (1, 0)]))
        tr = [[[0, [[0, 1, 0]]]],
              [[0, [[2, 1, 0], [5, 1, 0]]]],
              sorted([[a1, [[3, w1, 0], [0, w2, 0]]], [a2, [[4, 1, 0]]]]),
              [[0, [[0, 1, cx]]]], [[0, [[0, 1, cb]]]],
              [[0, [[3, 1, 0], [6, 1, 0]]]], [[0, [[0, 1, cz]]]]]
        from vpm.labels import enc
        lab = draw(st.sampled_from(["int", "str"]))
        spec = {"n": 7, "m": 2, "gamma": 1.0, "flavour": "ssp", "slabels": [enc(i if lab == "int" else f"s{i}") for i in range(7)],
                "alabels": [enc(0), enc(1)] if lab == "int" else [enc("a0"), enc("a1")], "trans": tr, "absorbing": [1, 0, 0, 0, 0, 0, 0],
                "p0": [[1, 1]], "explicit_states": None, "explicit_actions": None}
        px = w1 / (w1 + w2)
        vs = px * cx
        vy = 0.5 * cx + 0.5 * cz
        slack = [0, -(0.5 * vs + 0.5 * vy), px * delta, delta, 0, -vy, -cz]      # h = 0 at s0, y, z; b is raised by "tie2"
        return {"mdp": spec, "heuristic": {"kind": "tie2", "slack": slack, "const_extra": 0},
                "margin": draw(st.sampled_from([0.3, 0.5])), "seed": draw(st.integers(0, 10 ** 6)),
                "randomize_action_order": draw(st.booleans())}
    if draw(st.integers(0, 3)) == 0:
        # generous margins with heuristics that are loose by less than the margin: states get labelled with a non-zero
        # residual, and labelled states are shared between branches that are checked at different times
        spec = draw(mdp_specs(draw(st.sampled_from(["ssp", "dproper"])), min_states=4, max_states=7 if big else 6, allow_explicit=False,
                              max_out=3, absorbing_kinds=("n", "n", "n", "n", "n", "abs"), reward_values=[-1, -1, -2, -0.5, 0]))
        return {"mdp": spec, "heuristic": {"kind": draw(st.sampled_from(["slack", "tie2", "tie2"])), "const_extra": 0,
                                           "slack": [draw(st.sampled_from([0, 0, 0.05, 0.1, 0.2, 0.3, 0.45])) for _ in range(spec["n"])]},
                "margin": draw(st.sampled_from([0.3, 0.5, 1.0])), "seed": draw(st.integers(0, 10 ** 6)),
                "randomize_action_order": draw(st.booleans())}
    return {"mdp": spec, "heuristic": draw(heuristic_specs(spec["n"])),
            # (margin 0 - "solve exactly" - is legitimate; on cyclic stochastic problems the residual may never reach
            # exactly 0 in floating point, those runs end at the step budget and are counted as inconclusive)
            "margin": draw(st.sampled_from([1e-1, 1e-2, 1e-2, 1e-4, 1e-4, 1e-9, 0])),
            "seed": draw(st.one_of(st.sampled_from([0, 1, 2 ** 31 - 1]), st.integers(0, 10 ** 6))),
            "randomize_action_order": draw(st.booleans())}


def _large_case(t):
    import random
    spec, hk, seed, rao, margin = t
    spec = dict(spec, explicit_states=None)
    r = random.Random(seed)
    return {"mdp": spec, "heuristic": {"kind": hk, "slack": [r.choice([0, 0, 0.05, 0.5, 1, 3]) for _ in range(spec["n"])],
                                       "const_extra": r.choice([0, 0.5, 2])},
            "margin": margin, "seed": seed % (10 ** 6), "randomize_action_order": rao}


def large_cases(tier):
    """16-45 states: long trials, deep check-solved recursions"""
    from vpm.gen.mdp import large_mdp_specs
    return st.tuples(st.one_of(large_mdp_specs("dproper", max_actions=3, max_out=3), large_mdp_specs("ssp", max_actions=3, max_out=3)),
                     st.sampled_from(["const", "exact", "slack", "slack", "tie"]), st.integers(0, 2 ** 32), st.booleans(),
                     st.sampled_from([1e-1, 1e-2, 1e-4])).map(_large_case)


def _toll_road(t):
    """a long free road with a toll at its end: start -> (goal | road) by a risky action, or -> goal directly at a price;
    with h = 0 one check-solved pass has to walk the whole road before it meets the cost"""
    from vpm.labels import enc
    L, toll, direct, w_goal, w_road, seed, rao, margin = t
    n = L + 3                                    # 0 goal, 1 start, 2..L+1 road, L+2 toll booth
    tr = [[[0, [[0, 1, 0]]]], [[0, [[0, w_goal, 0], [2, w_road, 0]]], [1, [[0, 1, direct]]]]]
    for i in range(2, L + 2):
        tr.append([[0, [[i + 1, 1, 0]]]])
    tr.append([[0, [[0, 1, toll]]]])
    spec = {"n": n, "m": 2, "gamma": 1.0, "flavour": "ssp", "slabels": [enc(i) for i in range(n)], "alabels": [enc(0), enc(1)],
            "trans": tr, "absorbing": [1] + [0] * (n - 1), "p0": [[1, 1]], "explicit_states": None, "explicit_actions": None, "large": True}
    return {"mdp": spec, "heuristic": {"kind": "const", "slack": [0] * n, "const_extra": 0}, "margin": margin,
            "seed": seed % (10 ** 6), "randomize_action_order": rao}


def xl_cases(tier):
    from vpm.gen.mdp import large_mdp_specs
    road = st.tuples(st.sampled_from([40, 300, 505, 560, 620]), st.sampled_from([-100, -30]), st.sampled_from([-5, -2]),
                     st.sampled_from([1, 2]), st.sampled_from([1, 1, 2]), st.integers(0, 2 ** 32), st.booleans(),
                     st.sampled_from([1e-1, 1e-2])).map(_toll_road)
    return st.one_of(road, _random_xl())


def _random_xl():
    from vpm.gen.mdp import large_mdp_specs
    return st.tuples(st.one_of(large_mdp_specs("dproper", min_states=520, max_states=640, max_actions=2, max_out=2),
                               large_mdp_specs("ssp", min_states=520, max_states=640, max_actions=2, max_out=2)),
                     st.sampled_from(["const", "slack"]), st.integers(0, 2 ** 32), st.booleans(),
                     st.sampled_from([1e-1, 1e-2])).map(_large_case)


def prop_lrtdp(case, ctx):
    from msdm.algorithms.lrtdp import LRTDP, LRTDPEventListener
    spec = case["mdp"]
    mdp, view = build_mdp(spec)
    ref = RefMDP(spec)
    opt = ref.optimal()
    vstar = opt["V"]
    scale = 1 + float(np.max(np.abs(vstar)))
    h, hvals = make_heuristic(dict(case["heuristic"], _q=opt["Q"]), ref, vstar, view)
    below = []
    counts = {"steps": 0, "trials": 0}
    first_order, reordered = {}, []

    def _orders(action_orders):
        # "actions at a state are randomly ordered when that state is first encountered and fixed to that order
        # subsequently" (LRTDP docstring): an order, once recorded, never changes
        for s, order in action_orders.items():
            o = tuple(order)
            if first_order.setdefault(s, o) != o and len(reordered) < 3:
                reordered.append((view.sidx[s], first_order[s], o))

    class Listener(LRTDPEventListener):
        def end_of_lrtdp_timestep(self, lv):
            counts["steps"] += 1
            if counts["steps"] > 200000:
                raise Inconclusive("step budget")

        def end_of_lrtdp_trial(self, lv):
            counts["trials"] += 1
            if counts["trials"] > 20000:
                raise Inconclusive("trial budget")
            _orders(lv["self"].res.action_orders)
            V = lv["self"].res.V
            for s, v in V.items():
                i = view.sidx[s]
                if v < vstar[i] - TOL * scale:
                    below.append((counts["trials"], i, float(v), float(vstar[i])))

    margin = case["margin"]
    planner = LRTDP(heuristic=h, bellman_error_margin=margin, seed=case["seed"],
                    randomize_action_order=case["randomize_action_order"], event_listener_class=Listener)
    res = ctx.call("C04.plan_raises", planner.plan_on, mdp)
    init = [s for s, w in spec["p0"] if w > 0]
    for s in init:
        ctx.check(bool(res.solved[view.S[s]]), "C04.initial_state_not_solved", lambda: f"state {s}")
    _orders(res.action_orders)
    ctx.check(not reordered, "C04.action_order_not_fixed", lambda: f"(state, first order, later order) {reordered}")
    for s, order in res.action_orders.items():
        ctx.check(sorted(view.aidx[a] for a in order) == sorted(view.avail[view.sidx[s]]), "C04.action_order_not_the_action_set",
                  lambda: f"state {view.sidx[s]}: order {list(order)} vs available {view.avail[view.sidx[s]]}")
    ctx.check(not below, "C04.value_below_optimal_during_trials", lambda: f"(trial, state, V, V*) {below[:3]}")
    for s, v in res.V.items():
        i = view.sidx[s]
        ctx.check(float(v) >= vstar[i] - TOL * scale, "C04.value_below_optimal", lambda: f"state {i}: {v} < {vstar[i]}")
    # absorbing states are worth 0 in the reported values, whatever the heuristic says
    mentioned = set(view.sidx[s] for s in res.V.keys()) | set(init)
    for i in sorted(mentioned):
        if spec["absorbing"][i]:
            v = float(res.V[view.S[i]])
            ctx.check(v == 0, "C04.absorbing_value_zero", lambda: f"res.V[{i}] = {v} (heuristic {hvals[i]})")
    want_iv = sum(p * (0.0 if spec["absorbing"][s] else float(res.V[view.S[s]])) for s, p in view.p0 if p > 0)
    ctx.check(abs(float(res.initial_value) - want_iv) <= 1e-12 * scale, "C04.initial_value_expectation",
              lambda: f"initial_value {res.initial_value}, expectation with absorbing states at 0: {want_iv}")
    # Q is the one-step look-ahead of V
    for s, row in res.Q.items():
        i = view.sidx[s]
        for a, q in row.items():
            j = view.aidx[a]
            if spec["absorbing"][i]:
                want = 0.0
            else:
                want = sum(ref.T[i, j, k] * (ref.R[i, j, k] + ref.gamma * (0.0 if spec["absorbing"][k] else float(res.V[view.S[k]])))
                           for k in range(ref.n) if ref.W[i, j, k] > 0)
            ctx.check(abs(float(q) - want) <= 1e-9 * scale, "C04.q_is_lookahead_of_v", lambda: f"Q[{i}][{j}]={q} expected {want}")
    # returned policy: closure, availability, expected steps, exact return
    pi, seen = policy_closure(ctx, "C04", res.policy, spec, ref, view)
    # "labelled solved" (Bonet & Geffner): every state the greedy policy can reach from a solved state is consistent
    # to within the margin - checked on the final values over the returned policy's own closure
    def _val(k):
        return 0.0 if spec["absorbing"][k] else float(res.V[view.S[k]])
    for s in sorted(seen):
        if spec["absorbing"][s]:
            continue
        acts = [a for a in range(ref.m) if pi[s, a] > 0 and ref.avail[s, a]]
        for a in acts:
            q_sa = sum(ref.T[s, a, k] * (ref.R[s, a, k] + ref.gamma * _val(k)) for k in range(ref.n) if ref.W[s, a, k] > 0)
            ctx.check(abs(_val(s) - q_sa) <= margin + TOL * scale, "C04.greedy_envelope_residual_exceeds_margin",
                      lambda: f"state {s} on the returned policy's closure: V={_val(s)}, look-ahead of its action {a} = {q_sa}, margin {margin}")
    N = ref.expected_steps(pi)
    ev = ref.evaluate(pi)
    for s in init:
        if spec["absorbing"][s]:
            continue
        v = float(res.V[view.S[s]])
        if math.isfinite(N[s]):
            ctx.check(v - vstar[s] <= margin * N[s] + TOL * scale, "C04.initial_value_within_margin",
                      lambda: f"state {s}: V={v} V*={vstar[s]} margin*N={margin * N[s]}")
    jstar = float(sum(ref.p0[s] * vstar[s] for s in range(ref.n) if ref.p0[s] > 0))
    jpi = float(sum(ref.p0[s] * ev["V"][s] for s in range(ref.n) if ref.p0[s] > 0))
    nbar = float(sum(ref.p0[s] * N[s] for s in range(ref.n) if ref.p0[s] > 0))
    ctx.check(jpi <= jstar + TOL * scale and jstar - jpi <= margin * nbar + TOL * scale, "C04.policy_return_within_margin",
              lambda: f"J_pi {jpi} J* {jstar} margin*N {margin * nbar}")
    stochastic = any(sum(1 for ns, w, r in outs if w > 0) > 1 for s in seen for a, outs in spec["trans"][s])
    inexact = any(abs(hv - float(v)) > 1e-9 for hv, v in zip(hvals, vstar))
    if any(spec["absorbing"][s] for s in init):
        ctx.event("absorbing_initial_state")
    ctx.event("flavour=" + spec["flavour"])
    ctx.nontrivial(counts["trials"] >= 2 and stochastic and inexact)


@st.composite
def reuse_cases(draw, tier="quick"):
    kw = dict(min_states=2, max_states=5, allow_explicit=False, schemes=("int",), absorbing_kinds=("n", "n", "n", "abs"))
    a = draw(st.one_of(mdp_specs("ssp", **kw), mdp_specs("dproper", **kw)))
    b = draw(st.one_of(mdp_specs("ssp", **kw), mdp_specs("dproper", **kw)))
    return {"a": a, "b": b, "slack": draw(st.sampled_from([0, 0.5, 2])), "seed": draw(st.integers(0, 10 ** 6)),
            "margin": draw(st.sampled_from([1e-1, 1e-2]))}


def prop_reuse(case, ctx):
    """the same state label may be absorbing in one problem and not in the other"""
    from msdm.algorithms.lrtdp import LRTDP
    from vpm.checks.reuse import check_reuse, policy_table
    from vpm.checks.c03 import shared_heuristic
    table, (ma, mb) = shared_heuristic(case)
    from msdm.algorithms.lrtdp import LRTDPEventListener
    counts = {"steps": 0}

    class Budget(LRTDPEventListener):
        def end_of_lrtdp_timestep(self, lv):
            counts["steps"] += 1
            if counts["steps"] > 300000:
                raise Inconclusive("step budget")

        def end_of_lrtdp_trial(self, lv):
            pass
    make = lambda: LRTDP(heuristic=lambda s: table[s], seed=case["seed"], bellman_error_margin=case["margin"],
                         event_listener_class=Budget)
    check_reuse(ctx, "C04.reuse", make, lambda pl, m: pl.plan_on(m),
                lambda r, m: {"V": dict(r.V), "iv": r.initial_value, "pi": policy_table(r.policy, list(r.V.keys()))}, ma, mb)
    ctx.nontrivial(case["a"] != case["b"])


def _kp_value_estimate_rose(case, msg=None):
    """Known finding KF-C04-inconsistent-heuristic: true iff, in this very run (same problem, heuristic, seed, options), some
    state's value estimate was *higher* at the end of a trial than at the end of an earlier one - which only an admissible but
    inconsistent heuristic makes possible. Recomputed from the case; a run that exceeds the step budget does not match."""
    try:
        from msdm.algorithms.lrtdp import LRTDP, LRTDPEventListener
        if "mdp" not in case or "heuristic" not in case:
            return False
        spec = case["mdp"]
        mdp, view = build_mdp(spec)
        ref = RefMDP(spec)
        opt = ref.optimal()
        h, _ = make_heuristic(dict(case["heuristic"], _q=opt["Q"]), ref, opt["V"], view)
        seen, rose, steps = {}, [False], [0]

        class L(LRTDPEventListener):
            def end_of_lrtdp_timestep(self, lv):
                steps[0] += 1
                if steps[0] > 200000:
                    raise Inconclusive("step budget")

            def end_of_lrtdp_trial(self, lv):
                for s_, v in lv["self"].res.V.items():
                    v = float(v)
                    if s_ in seen and v > seen[s_] + 1e-12 * (1 + abs(v)):
                        rose[0] = True
                    seen[s_] = v
        LRTDP(heuristic=h, bellman_error_margin=case["margin"], seed=case["seed"],
              randomize_action_order=case["randomize_action_order"], event_listener_class=L).plan_on(mdp)
        return rose[0]
    except BaseException:
        return False


KNOWN_PREDICATES = {"value_estimate_rose_during_run": _kp_value_estimate_rose}


PROPS = [Prop("reuse", lambda tier: reuse_cases(tier), prop_reuse, quick=400, thorough=24000,
              doc="an LRTDP object reused on a second MDP gives the same result as a fresh one"),
         Prop("lrtdp", lambda tier: cases(tier), prop_lrtdp, quick=5000, thorough=300000,
              doc="LRTDP termination, upper-bound invariant, margin bounds, absorbing-state conventions"),
         Prop("lrtdp_large", large_cases, prop_lrtdp, quick=150, thorough=9000,
              doc="the same on MDPs with 16-45 states (reference optimum by certified policy iteration)"),
         Prop("lrtdp_xl", xl_cases, prop_lrtdp, quick=20, thorough=400,
              doc="the same on MDPs with 520-640 states (check-solved passes over more than 500 states)")]
