"""C15 — augmented sub-tasks and options preserve the base MDP and stop at their goals."""
import copy
import math
import random
import numpy as np
from hypothesis import strategies as st

from vpm.core import Prop, Rejected
from vpm.gen.mdp import mdp_specs, policy_specs
from vpm.build import build_mdp, SpecView
from vpm.ref.mdp import RefMDP, closure
from vpm.checks.c11 import OwnedRandom
from vpm.checks import c01

PROPERTY_ID = "C15"
RULE = ("Base MDP specs with discount rates 0.5 / 0.9 / 1.0 set as instance attribute x every subset of overridden "
        "components {initial_state_dist, actions, next_state_dist, reward, is_absorbing, state_list, action_list} "
        "taken from a second spec of the same shape; sub-goal options (sub-goal sets, initiation sets, pseudo-reward "
        "clipping, include_mdp_absorbing_states) planned with ValueIteration and compared with the reference optimum "
        "of the derived MDP; options = (policy spec, termination set, max_steps 2..30) run from any state under "
        "owned random streams; semi-MDPs with 1-2 string-named options, 1-30 simulations, seeds, primitive actions, planning options built on a re-discounted copy of the task. "
        "Non-trivial: base discount < 1 with >=1 non-overridden component (augment / sub-goal), or an option taking "
        ">=2 steps; distinct by spec hash."
        ' Also: same-named options, a re-query after changing the simulation count, a planning option named like a primitive action.')
ASSUMPTIONS = ["an AlgorithmException from Option.run_on is accepted iff the reference finds a positive-probability path "
               "that avoids the termination set for max_steps-1 transitions", "SemiMarkovDecisionProcess.actions() is "
               "not part of the statement and is not exercised"]
COMPONENTS = ["initial_state_dist", "actions", "next_state_dist", "reward", "is_absorbing", "state_list", "action_list"]


@st.composite
def base_specs(draw, flavours=("discounted", "negative"), max_states=5, **kw):
    fl = draw(st.sampled_from(flavours))
    return draw(mdp_specs(fl, min_states=2, max_states=max_states, allow_explicit=kw.pop("allow_explicit", False),
                          gammas=[0.5, 0.9], **kw))


@st.composite
def augment_cases(draw, tier="quick"):
    base = draw(base_specs(allow_explicit=True))
    repl = copy.deepcopy(base)
    n, m = base["n"], base["m"]
    # replacement components: re-drawn transitions / rewards / actions / absorbing flags / p0
    other = draw(mdp_specs(base["flavour"], min_states=n, max_states=n, max_actions=m, allow_explicit=False, gammas=[0.5, 0.9]))
    if other["m"] != m:
        other = None
    if other is not None:
        for k in ("trans", "absorbing", "p0"):
            repl[k] = other[k]
    else:
        repl["absorbing"] = [1 - x for x in base["absorbing"]]
    over = [c for c in COMPONENTS if draw(st.integers(0, 2)) == 0]
    return {"base": base, "repl": repl, "override": sorted(over),
            "state_perm": list(draw(st.permutations(list(range(n))))), "action_perm": list(draw(st.permutations(list(range(m)))))}


def dist_dict(d):
    return {e: p for e, p in d.items()}


def prop_augment(case, ctx):
    from msdm.core.semimdp.option import augment
    base_spec, repl_spec = case["base"], case["repl"]
    base, view = build_mdp(base_spec)
    repl, rview = build_mdp(repl_spec)
    S, A = view.S, view.A
    over = set(case["override"])
    kw = {}
    for c in ("initial_state_dist", "actions", "next_state_dist", "reward", "is_absorbing"):
        if c in over:
            kw[c] = getattr(repl, c)
    if "state_list" in over:
        kw["state_list"] = tuple(S[i] for i in case["state_perm"])
    if "action_list" in over:
        kw["action_list"] = tuple(A[i] for i in case["action_perm"])
    base_sl, base_al = list(base.state_list), list(base.action_list)
    aug = ctx.call("C15.augment.raises", augment, mdp=base, **kw)
    src = lambda c: repl if c in over else base
    tag = lambda c: "overridden" if c in over else "inherited"
    ctx.check(aug.discount_rate == base.discount_rate, "C15.augment.discount_rate_inherited",
              lambda: f"augmented discount_rate {aug.discount_rate}, base {base.discount_rate}")
    ctx.check(dist_dict(aug.initial_state_dist()) == dist_dict(src("initial_state_dist").initial_state_dist()),
              f"C15.augment.initial_state_dist_{tag('initial_state_dist')}")
    if "state_list" in over:
        ctx.check(list(aug.state_list) == list(kw["state_list"]), "C15.augment.state_list_overridden")
    else:
        ctx.check(list(aug.state_list) == base_sl, "C15.augment.state_list_inherited", lambda: f"{list(aug.state_list)} vs {base_sl}")
    if "action_list" in over:
        ctx.check(list(aug.action_list) == list(kw["action_list"]), "C15.augment.action_list_overridden")
    else:
        ctx.check(list(aug.action_list) == base_al, "C15.augment.action_list_inherited", lambda: f"{list(aug.action_list)} vs {base_al}")
    for i, s in enumerate(S):
        ctx.check(tuple(aug.actions(s)) == tuple(src("actions").actions(s)), f"C15.augment.actions_{tag('actions')}", lambda: f"state {i}")
        ctx.check(bool(aug.is_absorbing(s)) == bool(src("is_absorbing").is_absorbing(s)), f"C15.augment.is_absorbing_{tag('is_absorbing')}",
                  lambda: f"state {i}")
        nsd_src = src("next_state_dist")
        acts = [a for a in aug.actions(s) if a in nsd_src.actions(s)]
        for a in acts:
            d1 = dist_dict(aug.next_state_dist(s, a))
            d2 = dist_dict(nsd_src.next_state_dist(s, a))
            ctx.check(d1 == d2, f"C15.augment.next_state_dist_{tag('next_state_dist')}", lambda: f"state {i} action {a}: {d1} vs {d2}")
        r_src = src("reward")
        for a in r_src.actions(s):
            for ns, p in r_src.next_state_dist(s, a).items():
                if p > 0:
                    ctx.check(aug.reward(s, a, ns) == r_src.reward(s, a, ns), f"C15.augment.reward_{tag('reward')}",
                              lambda: f"({i},{a},{ns})")
    ctx.event(f"n_overridden={len(over)}")
    ctx.nontrivial(base.discount_rate < 1.0 and len(over) < len(COMPONENTS))


# ------------------------------------------------------------------ sub-goal options
@st.composite
def subgoal_cases(draw, tier="quick"):
    base = draw(base_specs(max_states=5))
    reach = sorted(closure(base))
    goals = draw(st.lists(st.sampled_from(reach), min_size=1, max_size=2, unique=True))
    inits = draw(st.lists(st.sampled_from(reach), min_size=1, max_size=2, unique=True))
    return {"base": base, "subgoals": goals, "initial_states": inits,
            "include_abs": draw(st.booleans()), "cap": draw(st.sampled_from(["inf", -1, 0, 1]))}


def derived_spec(case):
    base = case["base"]
    spec = copy.deepcopy(base)
    goals = set(case["subgoals"])
    cap = float("inf") if case["cap"] == "inf" else case["cap"]
    spec["absorbing"] = [1 if (s in goals or (case["include_abs"] and base["absorbing"][s])) else 0 for s in range(base["n"])]
    for s in range(base["n"]):
        for a, outs in spec["trans"][s]:
            for o in outs:
                if o[0] not in goals and o[2] > cap:
                    o[2] = cap
    spec["p0"] = [[s, 1] for s in case["initial_states"]]
    return spec


def prop_subgoal(case, ctx):
    from msdm.core.semimdp.option import PlanToSubgoalOption
    from msdm.algorithms.valueiteration import ValueIteration
    base_spec = case["base"]
    base, view = build_mdp(base_spec)
    S = view.S
    cap = float("inf") if case["cap"] == "inf" else case["cap"]
    opt = PlanToSubgoalOption(mdp=base, initial_states=[S[s] for s in case["initial_states"]],
                              subgoals=[S[s] for s in case["subgoals"]], planner=ValueIteration(max_residual=1e-8),
                              include_mdp_absorbing_states=case["include_abs"], name="to-goal",
                              max_nonterminal_pseudoreward=cap)
    sub = ctx.call("C15.subgoal.sub_task_raises", lambda: opt.sub_task)
    ctx.check(sub.discount_rate == base.discount_rate, "C15.subgoal.sub_task_discount_rate",
              lambda: f"sub-task discount {sub.discount_rate}, base {base.discount_rate}")
    dspec = derived_spec(case)
    res = ctx.call("C15.subgoal.planning_raises", lambda: opt.planning_result)
    cfg = {"solver": "vi_vec", "max_residual": 1e-8, "tiny_cap": 0, "undefined_value": 0}
    c01.check_result(ctx, dspec, cfg, res, sub, SpecView(dspec), "subgoal", pfx="C15")
    ctx.nontrivial(base.discount_rate < 1.0)


def _c01_names_to_c15(ctx):
    pass


# ------------------------------------------------------------------ option execution
@st.composite
def option_specs(draw, spec):
    n = spec["n"]
    extra = [draw(st.integers(0, n - 1))] if draw(st.integers(0, 3)) == 0 else []
    term = sorted(set([s for s in range(n) if spec["absorbing"][s]] + extra))
    init = draw(st.lists(st.integers(0, n - 1), min_size=1, max_size=n, unique=True))
    return {"policy": draw(policy_specs(spec)), "term": term, "init": sorted(init), "max_steps": draw(st.sampled_from([2, 3, 5, 10, 30, 30, 30])),
            "name": draw(st.sampled_from(["go", "opt-a", "left", "zz", None]))}


@st.composite
def run_cases(draw, tier="quick"):
    spec = draw(mdp_specs(draw(st.sampled_from(["ssp", "dproper"])), min_states=2, max_states=5, allow_explicit=False,
                          gammas=[0.5, 0.9], absorbing_kinds=("n", "n", "n", "n", "abs")))
    ospec = draw(option_specs(spec))
    nonterm = [s for s in range(spec["n"]) if s not in ospec["term"]]
    start = draw(st.sampled_from(nonterm)) if nonterm and draw(st.integers(0, 5)) > 0 else draw(st.integers(0, spec["n"] - 1))
    return {"mdp": spec, "option": ospec, "start": start,
            "stream": draw(st.lists(st.floats(0, 1, exclude_max=True, allow_nan=False), max_size=20)),
            "seed": draw(st.integers(0, 10 ** 6))}


def make_option(ospec, view, name_suffix=""):
    from msdm.core.semimdp.option import Option
    from msdm.core.mdp import FunctionalPolicy
    from msdm.core.distributions import DictDistribution
    S, A = view.S, view.A
    term = {S[s] for s in ospec["term"]}
    init = {S[s] for s in ospec["init"]}

    def f(s):
        row = ospec["policy"][view.sidx[s]]
        tot = sum(w for _, w in row)
        return DictDistribution({A[a]: w / tot for a, w in row})

    class SpecOption(Option):
        def __init__(self):
            self.name = None if ospec["name"] is None else ospec["name"] + name_suffix
            self.policy = FunctionalPolicy(f)
            self.max_steps = ospec["max_steps"]

        def is_initial(self, s):
            return s in init

        def is_terminal(self, s):
            return s in term

    return SpecOption()


def can_avoid_termination(spec, ospec, start, transitions):
    """is there a positive-probability path of `transitions` transitions from start whose states before
    the last are all non-terminal?"""
    term = set(ospec["term"])
    alive = {start} - term
    for _ in range(max(0, transitions - 1)):
        nxt = set()
        for s in alive:
            for a, w in ospec["policy"][s]:
                if w <= 0:
                    continue
                for ns, pw, r in dict((x, o) for x, o in spec["trans"][s])[a]:
                    if pw > 0 and ns not in term:
                        nxt.add(ns)
        alive = nxt
        if not alive:
            return False
    return bool(alive) and transitions >= 1


def validate_option_traj(ctx, tag, sim, spec, ospec, ref, view, start):
    steps = list(sim.steps)
    term = set(ospec["term"])
    states = [view.sidx[s_["state"]] for s_ in steps]
    ctx.check(states[0] == start, f"C15.{tag}.starts_at_given_state", lambda: f"{states[0]} vs {start}")
    ctx.check(states[-1] in term, f"C15.{tag}.ends_at_terminal_state", lambda: f"states {states}, terminal set {sorted(term)}")
    ctx.check(not any(s in term for s in states[:-1]), f"C15.{tag}.passes_through_terminal_state",
              lambda: f"states {states}, terminal set {sorted(term)}")
    for t, s_ in enumerate(steps[:-1]):
        i, j, k = view.sidx[s_["state"]], view.aidx[s_["action"]], view.sidx[s_["next_state"]]
        pw = dict((a, w) for a, w in ospec["policy"][i]).get(j, 0)
        ctx.check(pw > 0, f"C15.{tag}.action_not_from_option_policy", lambda: f"step {t}")
        ctx.check(ref.W[i, j, k] > 0 and s_["reward"] == ref.R[i, j, k], f"C15.{tag}.not_a_base_transition", lambda: f"step {t}: {s_}")
        ctx.check(states[t + 1] == k, f"C15.{tag}.steps_chain")
    return states


def prop_option_run(case, ctx):
    from msdm.core.exceptions import AlgorithmException
    spec, ospec = case["mdp"], case["option"]
    mdp, view = build_mdp(spec)
    ref = RefMDP(spec)
    opt = make_option(ospec, view)
    rng = OwnedRandom(case["stream"], tail_seed=case["seed"])
    start = case["start"]
    try:
        sim = opt.run_on(mdp, initial_state=view.S[start], rng=rng)
    except AlgorithmException as e:
        ok = can_avoid_termination(spec, ospec, start, ospec["max_steps"] - 1)
        ctx.check(ok, "C15.run.raises_although_termination_is_certain_before_limit",
                  lambda: f"max_steps {ospec['max_steps']}, start {start}, terminal {ospec['term']}: {e}")
        ctx.event("raised_at_step_limit")
        return
    except Exception as e:
        ctx.viol("C15.run.raises", f"{type(e).__name__}: {e}")
        return
    states = validate_option_traj(ctx, "run", sim, spec, ospec, ref, view, start)
    ctx.check(len(states) - 1 < ospec["max_steps"], "C15.run.exceeds_step_limit")
    if start in ospec["term"]:
        ctx.check(len(states) == 1, "C15.run.terminal_start_takes_no_step", lambda: f"{states}")
        ctx.event("terminal_start")
    ctx.nontrivial(len(states) >= 3)


# ------------------------------------------------------------------ semi-MDP
@st.composite
def smdp_cases(draw, tier="quick"):
    spec = draw(mdp_specs(draw(st.sampled_from(["ssp", "dproper"])), min_states=2, max_states=5, allow_explicit=False,
                          gammas=[0.5, 0.9], absorbing_kinds=("n", "n", "n", "n", "abs"), schemes=("int", "str")))
    k = draw(st.integers(1, 2))
    opts = [draw(option_specs(spec)) for _ in range(k)]
    for o in opts:
        o["max_steps"] = draw(st.integers(10, 60))
    return {"mdp": spec, "options": opts, "n_sims": draw(st.integers(1, 30)), "n_sims_later": draw(st.integers(1, 30)),
            "distinct_names": draw(st.booleans()),
            "seed": draw(st.one_of(st.sampled_from([0, 1]), st.integers(0, 10 ** 6))),
            "include_mdp_actions": draw(st.booleans()),
            # a planning option that happens to be called like one of the primitive actions ("left", 0, ...)
            "subgoal_option_named_like_action": draw(st.one_of(st.none(), st.none(), st.integers(0, spec["m"] - 1))),
            # ... and that was planned on a re-discounted copy of the task (its own .mdp differs from the semi-MDP's base)
            "subgoal_option_gamma": draw(st.sampled_from([None, 0.5, 0.9, 0.99]))}


def prop_smdp(case, ctx):
    from msdm.core.semimdp.semimdp import SemiMarkovDecisionProcess
    from msdm.core.exceptions import AlgorithmException
    spec = case["mdp"]
    mdp, view = build_mdp(spec)
    ref = RefMDP(spec)
    gamma = ref.gamma
    S, A = view.S, view.A
    # options may share a name (unnamed PlanToSubgoalOptions all have name None)
    opts = [make_option(dict(o, name=o["name"] if case.get("distinct_names", True) else "opt"), view,
                        name_suffix=f"#{i}" if case.get("distinct_names", True) else "") for i, o in enumerate(case["options"])]
    po = None
    goals = [s for s in sorted(closure(spec)) if spec["absorbing"][s]]
    if case.get("subgoal_option_named_like_action") is not None and goals:
        from msdm.core.semimdp.option import PlanToSubgoalOption
        from msdm.algorithms.valueiteration import ValueIteration
        plan_mdp = mdp
        if case.get("subgoal_option_gamma") is not None and case["subgoal_option_gamma"] != spec["gamma"]:
            plan_mdp = build_mdp(dict(spec, gamma=case["subgoal_option_gamma"], flavour="dproper"))[0]
            ctx.event("subgoal_option_planned_on_rediscounted_copy")
        po = PlanToSubgoalOption(mdp=plan_mdp, initial_states=[S[s] for s in sorted(closure(spec)) if not spec["absorbing"][s]],
                                 subgoals=[S[g] for g in goals], planner=ValueIteration(max_residual=1e-8),
                                 include_mdp_absorbing_states=True, name=A[case["subgoal_option_named_like_action"]], max_steps=500)
    smdp = SemiMarkovDecisionProcess(mdp=mdp, options=opts + ([po] if po is not None else []), n_option_simulations=case["n_sims"],
                                     include_mdp_actions=case["include_mdp_actions"], seed=case["seed"])
    multi = False
    if po is not None:
        ctx.event("subgoal_option_named_like_action")
        for s in [x for x in sorted(closure(spec)) if not spec["absorbing"][x]][:3]:
            try:
                nst = smdp.next_state_transit_time_dist(S[s], po)
                sims = smdp.run_simulations(S[s], po)
            except AlgorithmException:
                ctx.event("option_hit_step_limit")
                continue
            except Exception as e:
                ctx.viol("C15.smdp.option_raises", f"{type(e).__name__}: {e}")
                continue
            emp = {}
            for sim in sims:
                steps = list(sim.steps)
                k = (steps[-1]["state"], len(steps) - 1)
                emp[k] = emp.get(k, 0) + 1 / len(sims)
            got = {k: p for k, p in nst.items() if p > 0}
            ctx.check(set(got) == set(emp) and all(abs(got[k] - emp[k]) <= 1e-9 for k in emp), "C15.smdp.outcome_distribution_is_empirical",
                      lambda: f"planning option named {po.name!r} at state {s}: (end state, duration) {got}, its own simulations {emp}")
            # ... and with the reward component, discounted at the semi-MDP's base rate
            try:
                full = dict(smdp.next_state_transit_time_reward_dist(S[s], po).items())
            except AlgorithmException:
                continue
            emp3 = []
            for sim in sims:
                steps = list(sim.steps)
                rews = [x["reward"] for x in steps[:-1]]
                emp3.append((steps[-1]["state"], len(rews), sum((gamma ** t) * r for t, r in enumerate(rews))))
            close = lambda k, e: k[0] == e[0] and k[1] == e[1] and abs(k[2] - e[2]) <= 1e-9 * (1 + abs(e[2]))
            for e in emp3:
                mass = sum(p for k, p in full.items() if close(k, e))
                cnt = sum(1 for e2 in emp3 if close(e2, e))
                ctx.check(abs(mass - cnt / len(emp3)) <= 1e-9, "C15.smdp.outcome_distribution_is_empirical",
                          lambda: f"planning option at state {s}: outcome {e} (reward discounted at the base rate {gamma}) has mass {mass} in {full}, "
                                  f"{cnt}/{len(emp3)} of its own simulations")
            ctx.check(all(any(close(k, e) for e in emp3) for k, p in full.items() if p > 1e-12), "C15.smdp.outcome_distribution_is_empirical",
                      lambda: f"planning option at state {s}: outcomes {full} vs simulations {emp3}")
    for s in sorted(closure(spec)):
        # primitive actions
        for a in view.avail[s]:
            d = ctx.call("C15.smdp.primitive_raises", smdp.next_state_transit_time_reward_dist, S[s], A[a])
            want = {}
            for ns in range(ref.n):
                if ref.W[s, a, ns] > 0 or (S[ns] in dict(mdp.next_state_dist(S[s], A[a]).items())):
                    key = (S[ns], 1, ref.R[s, a, ns] if ref.W[s, a, ns] > 0 else mdp.reward(S[s], A[a], S[ns]))
                    want[key] = want.get(key, 0.0) + ref.T[s, a, ns]
            got = {k: p for k, p in d.items() if p > 0}
            want = {k: p for k, p in want.items() if p > 0}
            ctx.check(set(got) == set(want) and all(abs(got[k] - want[k]) <= 1e-12 for k in want), "C15.smdp.primitive_action_outcomes",
                      lambda: f"state {s} action {a}: {got} expected {want}")
        for ospec, o in zip(case["options"], opts):
            if s not in ospec["init"] or s in ospec["term"]:
                continue
            try:
                d = smdp.next_state_transit_time_reward_dist(S[s], o)
                sims = smdp.run_simulations(S[s], o)
            except AlgorithmException:
                ctx.event("option_hit_step_limit")
                continue
            except Exception as e:
                ctx.viol("C15.smdp.option_raises", f"{type(e).__name__}: {e}")
                continue
            ctx.check(len(sims) == case["n_sims"], "C15.smdp.simulation_count")
            ctx.check(abs(sum(d.values()) - 1) <= 1e-9, "C15.smdp.outcome_distribution_normalised", lambda: f"{dict(d)}")
            emp = {}
            for sim in sims:
                states = validate_option_traj(ctx, "smdp", sim, spec, ospec, ref, view, s)
                steps = list(sim.steps)
                rews = [x["reward"] for x in steps[:-1]]
                g = sum((gamma ** t) * r for t, r in enumerate(rews))
                key = (S[states[-1]], len(rews), g)
                emp[key] = emp.get(key, 0) + 1
                if len(rews) >= 2:
                    multi = True
            got = dict(d.items())
            # match keys with tolerance on the reward component
            unmatched = dict(got)
            for (ns, t, g), c in emp.items():
                ks = [k for k in unmatched if k[0] == ns and k[1] == t and abs(k[2] - g) <= 1e-9 * (1 + abs(g))]
                tot = sum(unmatched.pop(k) for k in ks)
                # several empirical keys may collapse on float-equal rewards; compare merged mass
                same = sum(c2 for (ns2, t2, g2), c2 in emp.items() if ns2 == ns and t2 == t and abs(g2 - g) <= 1e-9 * (1 + abs(g)))
                if ks:
                    ctx.check(abs(tot - same / case["n_sims"]) <= 1e-9, "C15.smdp.outcome_distribution_is_empirical",
                              lambda: f"state {s} option {o.name}: key {(ns, t, g)} mass {tot} expected {same / case['n_sims']}")
                else:
                    already = any(k[0] == ns and k[1] == t and abs(k[2] - g) <= 1e-9 * (1 + abs(g)) for k in got)
                    ctx.check(already, "C15.smdp.outcome_distribution_is_empirical",
                              lambda: f"state {s} option {o.name}: simulated outcome {(ns, t, g)} missing from {got}")
            ctx.check(all(p <= 1e-12 for p in unmatched.values()), "C15.smdp.outcome_distribution_is_empirical",
                      lambda: f"outcomes {unmatched} never simulated")
            # marginals
            nst = smdp.next_state_transit_time_dist(S[s], o)
            nsd = smdp.next_state_dist(S[s], o)
            ecr = smdp.expected_cumulative_reward(S[s], o)
            w_nst, w_ns = {}, {}
            for (ns, t, g), p in got.items():
                w_nst[(ns, t)] = w_nst.get((ns, t), 0.0) + p
                w_ns[ns] = w_ns.get(ns, 0.0) + p
            ctx.check(all(abs(nst.prob(k) - p) <= 1e-9 for k, p in w_nst.items()) and abs(sum(nst.values()) - 1) <= 1e-9,
                      "C15.smdp.transit_time_marginal")
            ctx.check(all(abs(nsd.prob(k) - p) <= 1e-9 for k, p in w_ns.items()) and abs(sum(nsd.values()) - 1) <= 1e-9,
                      "C15.smdp.next_state_marginal")
            mean = sum(g * p for (ns, t, g), p in got.items())
            ctx.check(abs(ecr - mean) <= 1e-9 * (1 + abs(mean)), "C15.smdp.expected_cumulative_reward")
    # the number of simulations is a plain attribute: after changing it, answers must follow the new value
    n2 = case.get("n_sims_later")
    if n2 and n2 != case["n_sims"]:
        smdp.n_option_simulations = n2
        for s in sorted(closure(spec))[:3]:
            for ospec, o in zip(case["options"], opts):
                if s not in ospec["init"] or s in ospec["term"]:
                    continue
                try:
                    d = smdp.next_state_transit_time_reward_dist(S[s], o)
                    sims = smdp.run_simulations(S[s], o)
                except AlgorithmException:
                    continue
                ctx.check(len(sims) == n2, "C15.smdp.simulation_count_after_change", lambda: f"{len(sims)} vs {n2}")
                ctx.check(abs(sum(d.values()) - 1) <= 1e-9, "C15.smdp.outcome_distribution_normalised_after_change",
                          lambda: f"state {s} option {o.name}: total mass {sum(d.values())} after n_option_simulations {case['n_sims']} -> {n2}")
    if not case.get("distinct_names", True) and len(opts) > 1:
        ctx.event("options_share_a_name")
    ctx.nontrivial(multi)


PROPS = [
    Prop("augment", lambda tier: augment_cases(tier), prop_augment, quick=1500, thorough=90000,
         doc="augment(): every non-overridden component (incl. discount rate and lists) equals the base, overridden ones the replacement"),
    Prop("subgoal", lambda tier: subgoal_cases(tier), prop_subgoal, quick=500, thorough=30000,
         doc="PlanToSubgoalOption plans on (base discount, clipped rewards, sub-goals absorbing): compared with the reference optimum"),
    Prop("option_run", lambda tier: run_cases(tier), prop_option_run, quick=4000, thorough=240000,
         doc="Option.run_on ends exactly at the first terminal state or raises at its step limit"),
    Prop("smdp", lambda tier: smdp_cases(tier), prop_smdp, quick=600, thorough=36000,
         doc="semi-MDP outcome distribution equals the empirical distribution of its own simulations; primitive actions; marginals"),
]
