"""C20 — built-in domains define well-formed models for every layout and parameter."""
import math
import numpy as np
from hypothesis import strategies as st

from vpm.core import Prop, ExhaustiveProp

PROPERTY_ID = "C20"
FUZZ = {"props": ["gridworld", "windy"], "quick": [2, 800], "thorough": [8, 30000]}
RULE = ("Rectangular layouts up to 5x4 over each domain's alphabet (GridWorld '. # s g x' with >=1 start; WindyGridWorld "
        "'. # @ $ x ^ v < >' with >=1 '@'; HeavenOrHell '. # s h g c' with exactly one 's'), incl. one-row / one-column "
        "grids and goals that cut the grid, passed as list or string; success / wind probabilities incl. 0 and 1, "
        "step costs, feature rewards (dict, and the default), coherence in [0,1], load-unload sizes 1..9, discount "
        "rates; CliffWalking as is. Oracle: generic well-formedness through the functional interface + an own parser "
        "and one-step physics for the plain grid world (every cell x every action enumerated). Non-trivial: layout "
        "with a wall and >=4 cells (grid domains) / any parameterised instance (tiger, load-unload); distinct by spec "
        "hash."
        ' Also: role arguments as list / set / frozenset / str, a feature_rewards dict shared with an earlier world.'
        ' A pickle round trip of the world; value-equal terminal-state objects.')
ASSUMPTIONS = ["rows are passed un-indented (GridWorld strips only the whole string)",
               "ValueIteration is capped at 300 iterations: only finiteness of the planned values is asserted"]


def grid_rows(alphabet, starts, min_starts=1, max_starts=2, tier="quick", extra=()):
    @st.composite
    def s(draw):
        w = draw(st.integers(1, 5))
        h = draw(st.integers(1, 4))
        cells = [[draw(st.sampled_from(alphabet)) for _ in range(w)] for _ in range(h)]
        k = draw(st.integers(min_starts, max_starts))
        k = min(k, w * h)
        coords = draw(st.lists(st.tuples(st.integers(0, h - 1), st.integers(0, w - 1)), min_size=k, max_size=k, unique=True))
        for (r, c) in coords:
            cells[r][c] = starts
        for sym in extra:  # symbols that must appear exactly/at least once if room
            pass
        return ["".join(row) for row in cells]
    return s()


def check_model(ctx, tag, model, pomdp=False, plan=True):
    """generic well-formedness through the functional interface"""
    sl = ctx.call(f"C20.{tag}.state_list_raises", lambda: list(model.state_list))
    sset = set(sl)
    ctx.check(len(sset) == len(sl) and len(sl) >= 1, f"C20.{tag}.state_list")
    init = ctx.call(f"C20.{tag}.initial_state_dist_raises", model.initial_state_dist)
    items = list(init.items())
    ctx.check(abs(sum(p for _, p in items) - 1) <= 1e-9, f"C20.{tag}.initial_distribution_not_normalised", lambda: f"{items}")
    ctx.check(all(s in sset for s, p in items if p > 0), f"C20.{tag}.initial_state_outside_state_list")
    for s in sl:
        acts = ctx.call(f"C20.{tag}.actions_raises", model.actions, s)
        ctx.check(len(acts) >= 1, f"C20.{tag}.state_without_action", lambda: f"{s}")
        for a in acts:
            d = ctx.call(f"C20.{tag}.next_state_dist_raises", model.next_state_dist, s, a)
            its = list(d.items())
            tot = sum(p for _, p in its)
            ctx.check(abs(tot - 1) <= 1e-9 and all(p >= 0 for _, p in its), f"C20.{tag}.transition_not_normalised",
                      lambda: f"state {s} action {a}: {its}")
            for ns, p in its:
                if p > 0:
                    ctx.check(ns in sset, f"C20.{tag}.successor_outside_state_list",
                              lambda: f"{s} --{a}--> {ns} [source absorbing={bool(model.is_absorbing(s))}]")
                    if ns not in sset:
                        continue
                    r = ctx.call(f"C20.{tag}.reward_raises", model.reward, s, a, ns)
                    ctx.check(isinstance(r, (int, float, np.integer, np.floating)) and math.isfinite(r), f"C20.{tag}.reward_not_finite",
                              lambda: f"{s},{a},{ns}: {r!r}")
    if pomdp:
        al = list(model.action_list)
        for a in al:
            for ns in sl:
                od = ctx.call(f"C20.{tag}.observation_dist_raises", model.observation_dist, a, ns)
                ctx.check(abs(sum(p for _, p in od.items()) - 1) <= 1e-9, f"C20.{tag}.observation_not_normalised", lambda: f"{a},{ns}: {dict(od.items())}")
        om = ctx.call(f"C20.{tag}.observation_matrix_raises", lambda: model.observation_matrix)
        ctx.check(np.allclose(om.sum(-1), 1), f"C20.{tag}.observation_matrix_rows")
    T = ctx.call(f"C20.{tag}.transition_matrix_raises", lambda: model.transition_matrix)
    ctx.call(f"C20.{tag}.reward_matrix_raises", lambda: model.reward_matrix)
    am = model.action_matrix.astype(bool)
    nonabs = np.array([not bool(model.is_absorbing(s)) for s in sl])
    ctx.check(bool(np.allclose(T.sum(-1)[am & nonabs[:, None]], 1)), f"C20.{tag}.transition_matrix_rows")
    ctx.check(bool(np.isfinite(model.reward_matrix).all()), f"C20.{tag}.reward_matrix_finite")
    model.absorbing_state_vec
    if plan:
        from msdm.algorithms.valueiteration import ValueIteration
        res = ctx.call(f"C20.{tag}.planning_raises", ValueIteration(max_iterations=300, undefined_value=0).plan_on, model)
        vals = np.array([float(res.state_value[s]) for s in sl])
        ctx.check(bool(np.isfinite(vals).all()), f"C20.{tag}.planned_values_not_finite", lambda: f"{vals}")
    return sl


# ---------------------------------------------------------------- GridWorld
@st.composite
def gridworld_cases(draw, tier="quick"):
    rows = draw(grid_rows(".....##sgx", "s"))
    fr = draw(st.one_of(st.none(), st.fixed_dictionaries({}, optional={"g": st.sampled_from([0, 5, 10]), "x": st.sampled_from([-10, -1]),
                                                                         "s": st.sampled_from([1, -2]), "#": st.just(7)})))
    return {"rows": rows, "as_string": draw(st.booleans()), "success_prob": draw(st.sampled_from([0, 0.3, 0.8, 1, 1.0, 0.0])),
            "step_cost": draw(st.sampled_from([-1, 0, -0.5])), "feature_rewards": fr,
            "absorbing": draw(st.sampled_from([["g"], ["g", "x"]])), "gamma": draw(st.sampled_from([1.0, 0.95, 0.5])),
            "role_rep": draw(st.sampled_from(["tuple", "tuple", "list", "set", "frozenset", "str", "str"]))}


def prop_gridworld(case, ctx):
    from msdm.domains.gridworld.mdp import GridWorld, TERMINALSTATE
    from frozendict import frozendict
    rows = case["rows"]
    H, W = len(rows), len(rows[0])
    tile = "\n".join(rows) if case["as_string"] else list(rows)
    kw = {}
    if case["feature_rewards"] is not None:
        kw["feature_rewards"] = dict(case["feature_rewards"])
        if (len(rows) + len(rows[0])) % 2 == 0:
            # the same dict object was used for another (featureless) world before: what a world pays is decided by the
            # dict's contents as the caller wrote them, not by what an earlier construction left of it
            ctx.call("C20.gridworld.construct_raises", GridWorld, ["s.", ".."], feature_rewards=kw["feature_rewards"])
            ctx.event("feature_rewards_dict_shared_with_an_earlier_world")
    # the role arguments are collections of one-character features: a tuple, a list, a set or simply a string of them
    rr = case.get("role_rep", "tuple")
    rep = {"tuple": tuple, "list": list, "set": set, "frozenset": frozenset, "str": lambda xs: "".join(xs)}[rr]
    if rr != "tuple":
        kw.update(wall_features=rep(["#"]), initial_features=rep(["s"]))
        ctx.event("role_rep=" + rr)
    gw = ctx.call("C20.gridworld.construct_raises", GridWorld, tile, absorbing_features=rep(list(case["absorbing"])),
                  success_prob=case["success_prob"], step_cost=case["step_cost"], discount_rate=case["gamma"], **kw)
    if (len(rows) + len(rows[0])) % 2 == 1:
        # the world as a worker process or a saved model sees it: after a pickle round trip (equal, not identical, states)
        import pickle
        gw = ctx.call("C20.gridworld.pickle_raises", lambda: pickle.loads(pickle.dumps(gw)))
        ctx.event("after_pickle_round_trip")
    sl = check_model(ctx, "gridworld", gw)
    FR = case["feature_rewards"] if case["feature_rewards"] is not None else {"g": 0}
    feat = {}
    for ri, row in enumerate(rows):
        for x, ch in enumerate(row):
            feat[(x, H - 1 - ri)] = ch
    p = case["success_prob"]
    S = lambda xy: frozendict({"x": xy[0], "y": xy[1]})
    ctx.check(set(sl) == {S(xy) for xy in feat} | {TERMINALSTATE}, "C20.gridworld.state_list_is_all_cells_plus_terminal")
    init = {s: pr for s, pr in gw.initial_state_dist().items() if pr > 0}
    starts = {S(xy) for xy, ch in feat.items() if ch == "s"}
    ctx.check(set(init) == starts and all(abs(pr - 1 / len(starts)) <= 1e-12 for pr in init.values()), "C20.gridworld.initial_states_are_start_cells")
    ctx.check(bool(gw.is_absorbing(TERMINALSTATE)), "C20.gridworld.terminal_is_absorbing")
    # ... also as the model itself lists it, and as an equal object built by the caller (states are values, not identities)
    for t_ in [s_ for s_ in sl if s_ == TERMINALSTATE] + [frozendict(dict(TERMINALSTATE))]:
        ctx.check(bool(gw.is_absorbing(t_)), "C20.gridworld.terminal_is_absorbing", lambda: f"an equal terminal-state object {t_!r}")
        for a in gw.actions(t_):
            d = {ns: pr for ns, pr in gw.next_state_dist(t_, a).items() if pr > 0}
            ctx.check(d == {TERMINALSTATE: 1} and gw.reward(t_, a, TERMINALSTATE) == 0, "C20.gridworld.terminal_self_loop", lambda: f"{d}")
    for a in gw.actions(TERMINALSTATE):
        d = {ns: pr for ns, pr in gw.next_state_dist(TERMINALSTATE, a).items() if pr > 0}
        ctx.check(d == {TERMINALSTATE: 1}, "C20.gridworld.terminal_self_loop")
        ctx.check(gw.reward(TERMINALSTATE, a, TERMINALSTATE) == 0, "C20.gridworld.terminal_zero_reward")
    for xy, ch in feat.items():
        if ch == "#":
            continue
        s = S(xy)
        for a in gw.actions(s):
            dx, dy = a["dx"], a["dy"]
            ctx.check(abs(dx) + abs(dy) <= 1, "C20.gridworld.action_is_unit_move")
            got = {ns: pr for ns, pr in gw.next_state_dist(s, a).items() if pr > 0}
            if ch in case["absorbing"]:
                ctx.check(got == {TERMINALSTATE: 1}, "C20.gridworld.absorbing_feature_goes_to_terminal", lambda: f"{xy} {dict(a)}: {got}")
                ctx.check(gw.reward(s, a, TERMINALSTATE) == 0, "C20.gridworld.absorbing_feature_zero_reward")
                continue
            tgt = (xy[0] + dx, xy[1] + dy)
            blocked = tgt not in feat or feat[tgt] == "#" or tgt == xy
            if blocked:
                want = {s: 1.0}
            else:
                want = {}
                if p > 0:
                    want[S(tgt)] = float(p)
                if p < 1:
                    want[s] = want.get(s, 0.0) + 1.0 - float(p)
            ctx.check(set(got) == set(want) and all(abs(got[k] - want[k]) <= 1e-12 for k in want), "C20.gridworld.one_step_physics",
                      lambda: f"cell {xy} ({ch}) action ({dx},{dy}) success_prob {p}: {got} expected {want}")
            for ns in got:
                if ns == TERMINALSTATE:
                    ctx.viol("C20.gridworld.terminal_from_ordinary_cell", f"{xy}")
                    continue
                nxy = (ns["x"], ns["y"])
                ctx.check(nxy in feat, "C20.gridworld.left_the_grid", lambda: f"{xy} -> {nxy}")
                ctx.check(feat.get(nxy) != "#", "C20.gridworld.entered_wall", lambda: f"{xy} -> {nxy}")
                ctx.check(nxy in (xy, tgt), "C20.gridworld.moved_not_as_commanded", lambda: f"{xy} ({dx},{dy}) -> {nxy}")
                r = gw.reward(s, a, ns)
                wr = case["step_cost"] + FR.get(feat[nxy], 0.0)
                ctx.check(abs(r - wr) <= 1e-12, "C20.gridworld.reward_is_step_cost_plus_feature_reward",
                          lambda: f"{xy} ({dx},{dy}) -> {nxy} ({feat[nxy]}): reward {r} expected {wr}")
    ctx.event("as_string" if case["as_string"] else "as_list")
    if H == 1 or W == 1:
        ctx.event("one_wide")
    ctx.nontrivial(any(ch == "#" for ch in feat.values()) and len(feat) >= 4)


# ---------------------------------------------------------------- WindyGridWorld
@st.composite
def windy_cases(draw, tier="quick"):
    rows = draw(grid_rows("....#$x^v<>", "@"))
    fr = draw(st.one_of(st.just("default"), st.fixed_dictionaries({}, optional={"x": st.sampled_from([-10, -1]), "$": st.sampled_from([0, 5])})))
    return {"rows": rows, "wind_probability": draw(st.sampled_from([0, 0.5, 1, 0.25])), "feature_rewards": fr,
            "step_cost": draw(st.sampled_from([-1, 0])), "wall_bump_cost": draw(st.sampled_from([-1, 0, -3])),
            "gamma": draw(st.sampled_from([0.99, 0.5, 1.0])), "indent": draw(st.booleans())}


def prop_windy(case, ctx):
    from msdm.domains.gridmdp.windygridworld import WindyGridWorld
    rows = case["rows"]
    grid = "\n".join(("        " if case["indent"] else "") + r for r in rows)
    kw = {}
    if case["feature_rewards"] != "default":
        kw["feature_rewards"] = case["feature_rewards"]
    w = ctx.call("C20.windy.construct_raises", WindyGridWorld, grid, wind_probability=case["wind_probability"],
                 step_cost=case["step_cost"], wall_bump_cost=case["wall_bump_cost"], discount_rate=case["gamma"], **kw)
    sl = check_model(ctx, "windy", w)
    H, W = len(rows), len(rows[0])
    feat = {(x, H - 1 - ri): ch for ri, row in enumerate(rows) for x, ch in enumerate(row)}
    for s in sl:
        ctx.check((s.x, s.y) in feat, "C20.windy.state_off_grid", lambda: f"{s}")
        if feat.get((s.x, s.y)) == "#":
            # observed (wind + action + border clamping can land on a wall cell, e.g. "@^#"); the statement's
            # physics clauses cover the plain grid world only, so this is counted, not asserted
            ctx.event("reachable_state_inside_wall")
    if case["feature_rewards"] == "default":
        ctx.event("default_feature_rewards")
    ctx.nontrivial(any(ch == "#" for ch in feat.values()) and any(ch in "^v<>" for ch in feat.values()) and len(feat) >= 4)


# ---------------------------------------------------------------- HeavenOrHell
@st.composite
def hoh_cases(draw, tier="quick"):
    rows = draw(grid_rows("...##hgc", "s", min_starts=1, max_starts=1))
    return {"rows": rows, "coherence": draw(st.sampled_from([0.5, 0.95, 1, 0, 0.7])), "gamma": draw(st.sampled_from([0.95, 0.5, 0.99])),
            "step_cost": draw(st.sampled_from([-1, 0])), "heaven": draw(st.sampled_from([50, 1])), "hell": draw(st.sampled_from([-50, -1]))}


def prop_hoh(case, ctx):
    from msdm.domains.heavenorhell import HeavenOrHell
    grid = "\n".join("            " + r for r in case["rows"])
    m = ctx.call("C20.heavenorhell.construct_raises", HeavenOrHell, coherence=case["coherence"], discount_rate=case["gamma"],
                 step_cost=case["step_cost"], heaven_reward=case["heaven"], hell_reward=case["hell"], grid=grid)
    sl = check_model(ctx, "heavenorhell", m, pomdp=True)
    rows = case["rows"]
    H = len(rows)
    feat = {(x, ri): ch for ri, row in enumerate(rows) for x, ch in enumerate(row)}
    for s in sl:
        ctx.check(feat.get((s.x, s.y), "#") != "#", "C20.heavenorhell.state_inside_wall_or_off_grid", lambda: f"{s}")
    ctx.nontrivial(len(sl) >= 4 and any(ch == "c" for ch in feat.values()))


# ---------------------------------------------------------------- fixed-size domains
@st.composite
def small_cases(draw, tier="quick"):
    return {"domain": draw(st.sampled_from(["tiger", "loadunload", "cliff"])),
            "coherence": draw(st.one_of(st.sampled_from([0, 1, 0.5, 0.85]), st.floats(0, 1, allow_nan=False))),
            "gamma": draw(st.sampled_from([0.95, 0.5, 0.99, 0.3])), "nstates": draw(st.integers(1, 9))}


def prop_small(case, ctx):
    d = case["domain"]
    if d == "tiger":
        from msdm.domains.tiger import Tiger
        m = ctx.call("C20.tiger.construct_raises", Tiger, coherence=case["coherence"], discount_rate=case["gamma"])
        check_model(ctx, "tiger", m, pomdp=True)
    elif d == "loadunload":
        from msdm.domains.loadunload import LoadUnload
        m = ctx.call("C20.loadunload.construct_raises", LoadUnload, nstates=case["nstates"], discount_rate=case["gamma"])
        sl = check_model(ctx, "loadunload", m, pomdp=True)
        ctx.check(all(0 <= s.location < case["nstates"] for s in sl), "C20.loadunload.location_range")
    else:
        from msdm.domains.cliffwalking import CliffWalking
        m = ctx.call("C20.cliffwalking.construct_raises", CliffWalking)
        sl = check_model(ctx, "cliffwalking", m)
        ctx.check(all(0 <= s.x < 12 and 0 <= s.y < 4 for s in sl), "C20.cliffwalking.location_range")
    ctx.event("domain=" + d)
    ctx.nontrivial(True)


def all_small_gridworlds(tier):
    """every layout over '.#sgx' with >=1 start cell: up to 4 cells in the quick tier, up to 6 cells (all shapes
    w x h with w <= 5, h <= 4) in the thorough tier, x success probability in {0, 0.3, 1}"""
    import itertools
    max_cells = 6 if tier == "thorough" else 4
    for h in range(1, 5):
        for w in range(1, 6):
            if w * h > max_cells:
                continue
            for cells in itertools.product(".#sgx", repeat=w * h):
                if "s" not in cells:
                    continue
                rows = ["".join(cells[r * w:(r + 1) * w]) for r in range(h)]
                for p in (0, 0.3, 1):
                    yield {"rows": rows, "as_string": (len(rows) + w) % 2 == 0, "success_prob": p, "step_cost": -1,
                           "feature_rewards": {"g": 5, "x": -10}, "absorbing": ["g"], "gamma": 0.95}


def _kp_source_absorbing(case, msg):
    return "[source absorbing=True]" in msg


KNOWN_PREDICATES = {"source_state_is_absorbing": _kp_source_absorbing}

PROPS = [
    ExhaustiveProp("gridworld_exhaustive", all_small_gridworlds, prop_gridworld,
                   doc="ALL GridWorld layouts over '.#sgx' with <=4 cells (quick) / <=6 cells (thorough) x success_prob in {0,.3,1}"),
    Prop("gridworld", lambda tier: gridworld_cases(tier), prop_gridworld, quick=1200, thorough=60000,
         doc="GridWorld: generic well-formedness + one-step physics of every cell x action vs an own parser"),
    Prop("windy", lambda tier: windy_cases(tier), prop_windy, quick=600, thorough=30000,
         doc="WindyGridWorld: generic well-formedness, states inside the grid and outside walls"),
    Prop("heavenorhell", lambda tier: hoh_cases(tier), prop_hoh, quick=300, thorough=15000,
         doc="HeavenOrHell: generic POMDP well-formedness incl. observation distributions"),
    Prop("small", lambda tier: small_cases(tier), prop_small, quick=80, thorough=2400,
         doc="Tiger (coherence in [0,1]), LoadUnload (1..9 states), CliffWalking"),
]
