"""C08 — PBVI never over-estimates and QMDP never under-estimates the optimal POMDP value."""
import math
import numpy as np
from hypothesis import strategies as st

from vpm.core import Prop, Rejected
from vpm.gen.pomdp import pomdp_specs, belief_weights
from vpm.build import build_pomdp
from vpm.ref.pomdp import RefPOMDPArrays
from vpm.ref.mdp import RefMDP

PROPERTY_ID = "C08"
RULE = ("Discounted POMDP specs (2-4 states, 1-3 actions, 1-3 observations, with/without absorbing states, rewards of "
        "either sign or non-negative, incl. fully revealing observation kernels) x beliefs (initial belief, all "
        "beliefs reachable within 2 steps by the reference filter, generated simplex points) x thresholds {0,1e-6,1e-2} x "
        "horizons {None,1..4} x belief-expansion budgets 0..3. Oracle: independent expectimax on belief mass vectors "
        "(exact k-step optimum V*_k, and brackets L_d <= V* <= U_d with sound leaf bounds), reference MDP solve for "
        "QMDP. Non-trivial: >=2 observations with an informative kernel, >=2 actions with different rewards and a "
        "non-vertex belief; distinct by spec hash."
        " Also: explicit horizons of 30-200 with rewards in a narrow band far from zero and the relation 'ended before the horizon => ended through the threshold'; lower side of the point-based value in fully observable POMDPs; a 'linger' gadget."
        ' Alpha vectors judged at beliefs outside the belief set; belief sets that do not cover the state space; the lower side only with the default-sized expansion budget.')
ASSUMPTIONS = ["the k-step optimal value is computed by an independent float expectimax (depth <= 5)",
               "with the default horizon (None) the iteration count is not observable from plan_on, so only the weaker "
               "bound value <= U_d + max(0,-r_min)/(1-gamma) is asserted there"]
TOL = 1e-8


@st.composite
def linger_gadget(draw):
    """fully observable; the agent starts in A, D or B with different masses, may linger in A and in D (self-loop 1/2) and
    never returns to a start state; action x is best only in A. The initial belief then has three new successors at three
    different distances from the belief set, and the right first action for A exists only if A's point belief is found."""
    from vpm.labels import enc
    good, pen = draw(st.sampled_from([10, 8])), draw(st.sampled_from([-100, -50]))
    wa, wd, wb = draw(st.sampled_from([(3, 2, 5), (4, 1, 5), (3, 1, 6), (2, 3, 5)]))
    x, y = draw(st.sampled_from([(0, 1), (1, 0)]))
    def row(s, rx, ry, outs):
        return sorted([[x, [[ns, w, rx] for ns, w in outs]], [y, [[ns, w, ry] for ns, w in outs]]])
    tr = [row(0, good, 0, [(0, 1), (3, 1)]), row(1, 0, good, [(1, 1), (3, 1)]), row(2, pen, good, [(3, 1)]), row(3, 0, good, [(3, 1)])]
    spec = {"n": 4, "m": 2, "k": 4, "gamma": draw(st.sampled_from([0.9, 0.8])), "flavour": "discounted",
            "slabels": [enc(l) for l in ["A", "D", "B", "C"]], "alabels": [enc("x"), enc("y")] if x == 0 else [enc("y"), enc("x")],
            "olabels": [enc(f"o{i}") for i in range(4)], "trans": tr, "absorbing": [0, 0, 0, 0], "p0": [[0, wa], [1, wd], [2, wb]],
            "explicit_states": None, "explicit_actions": None,
            "obs": [[[[ns, 1]] for ns in range(4)] for a in range(2)]}
    return {"pomdp": spec, "beliefs": [[wa, wd, wb, 0]], "revealing": True, "eps": draw(st.sampled_from([1e-2, 1e-3])), "horizon": None,
            "min_exp": 100, "extra_exp": 0}


@st.composite
def cases(draw, tier="quick", revealing=None):
    if revealing is None and draw(st.integers(0, 14)) == 0:
        return draw(linger_gadget())
    rev = draw(st.integers(0, 4)) == 0 if revealing is None else revealing
    nonneg = draw(st.integers(0, 3)) == 0
    spec = draw(pomdp_specs(max_states=4, max_actions=3, max_obs=3 if tier == "thorough" else 2, revealing=rev,
                            reward_lo=0 if nonneg else -3, gammas=[0.3, 0.5, 0.7, 0.8]))
    nb = draw(st.integers(1, 3))
    beliefs = [draw(belief_weights(spec["n"])) for _ in range(nb)]
    horizon = draw(st.sampled_from([None, 1, 2, 3, 4]))
    if draw(st.integers(0, 5)) == 0:
        # rewards in a narrow band far from zero (step costs -10 .. -10.25 or prizes 8 .. 8.5) and a generous explicit
        # horizon: the run should end through its convergence threshold, not through the horizon
        base, step = draw(st.sampled_from([(-10.0, -0.25), (8.0, 0.5), (-4.0, -0.125)]))
        for s_ in range(spec["n"]):
            for a_, outs in spec["trans"][s_]:
                for o_ in outs:
                    o_[2] = base + step * (o_[2] % 2)
        horizon = draw(st.sampled_from([30, 60, 200]))
    return {"pomdp": spec, "beliefs": beliefs, "revealing": rev, "small_set": draw(st.sampled_from([0, 0, 1, 2])),
            "eps": draw(st.sampled_from([0, 1e-6, 1e-2])), "horizon": horizon,
            "min_exp": draw(st.integers(0, 3)) if not (rev and draw(st.booleans())) else 100, "extra_exp": draw(st.integers(0, 2))}


def setup(case):
    spec = case["pomdp"]
    pomdp, view = build_pomdp(spec)
    arr = RefPOMDPArrays(spec)
    sl = [view.sidx[s] for s in pomdp.state_list]
    return spec, pomdp, view, arr, sl


def masked_beliefs(case, arr, sl):
    out = []
    for w in case["beliefs"]:
        v = np.array([w[s] if s in sl else 0 for s in range(arr.n)], dtype=float)
        if v.sum() == 0:
            v = arr.p0.copy()
        out.append(v / v.sum())
    return out


def to_msdm_vec(b, sl):
    return np.array([b[s] for s in sl])


def prop_backup(case, ctx):
    """point_based_value_iteration called directly on a reference-built belief set."""
    from msdm.algorithms.pointbasedvalueiteration import point_based_value_iteration
    spec, pomdp, view, arr, sl = setup(case)
    horizon = case["horizon"] or 3
    eps = case["eps"]
    B = arr.reachable_beliefs(2)[:12] + masked_beliefs(case, arr, sl)
    if case["revealing"]:
        B = B + [np.eye(arr.n)[s] for s in sl]
    if case.get("small_set"):
        # a belief set that does not cover the state space (what a tiny expansion budget gives): the initial belief, or it
        # and its one-step successors
        B = arr.reachable_beliefs(case["small_set"] - 1)[:4]
        ctx.event("small_belief_set")
    Bm = np.array([to_msdm_vec(b, sl) for b in B])
    res = ctx.call("C08.backup.raises", point_based_value_iteration, pomdp, Bm, eps, horizon)
    alphas = np.asarray(res["alpha_vectors"])
    it = int(res["iterations"])
    ctx.check(alphas.shape == (len(B), len(sl)), "C08.backup.alpha_shape")
    scale = 1 + max(abs(arr.rmin), abs(arr.rmax)) / (1 - arr.gamma)
    informative = False
    # every alpha vector is the value of a conditional plan, hence a lower bound of the optimum at *every* belief - also at
    # beliefs outside the set the backups were computed on (point beliefs on every state, the uniform belief)
    others = [np.eye(arr.n)[s_] for s_ in sl] + [np.array([1.0 / len(sl) if s_ in sl else 0.0 for s_ in range(arr.n)])]
    others = [b_ for b_ in others if not any(np.allclose(b_, b0_) for b0_ in B)]
    for b in B + others:
        val = float(np.max(alphas @ to_msdm_vec(b, sl)))
        if it <= 4:      # (the expectimax oracle is exponential in the depth)
            vk = max(arr.vk(b, it), arr.vk(b, it + 1))
            ctx.check(val <= vk + TOL * scale, "C08.backup.alpha_value_exceeds_k_step_optimum",
                      lambda: f"belief {b.tolist()}: alpha value {val} > V*_k {vk} (k in {{{it},{it + 1}}})")
        ctx.check(val <= arr.upper(b, 4) + max(0.0, -arr.rmin) * arr.gamma ** it / (1 - arr.gamma) + TOL * scale,
                  "C08.backup.alpha_value_exceeds_optimal_plus_slack", lambda: f"belief {b.tolist()}: {val}")
    if eps > 0 and 1 <= it < horizon - 1:
        # the run ended before its horizon: then it ended through the convergence threshold, i.e. backup number it+1
        # moves no belief point's value by eps or more, and what is returned is the result of exactly `it` backups
        # (both recomputed with the threshold switched off)
        ra = ctx.call("C08.backup.raises", point_based_value_iteration, pomdp, Bm, 0, it)
        rb = ctx.call("C08.backup.raises", point_based_value_iteration, pomdp, Bm, 0, it + 1)
        va = np.einsum("bs,bs->b", np.asarray(ra["alpha_vectors"]), Bm)
        vb = np.einsum("bs,bs->b", np.asarray(rb["alpha_vectors"]), Bm)
        v0 = np.einsum("bs,bs->b", alphas, Bm)
        ctx.check(float(np.abs(va - vb).max()) < eps * (1 + 1e-9) + 1e-12, "C08.backup.stopped_before_threshold_and_horizon",
                  lambda: f"stopped after {it} of {horizon} backups although the next backup still moves a belief value by "
                          f"{float(np.abs(va - vb).max())} >= eps = {eps}")
        ctx.check(float(np.abs(v0 - va).max()) <= TOL * scale, "C08.backup.early_stop_result_is_not_the_reported_backup_count",
                  lambda: f"reported iterations {it}; values differ from {it} plain backups by {float(np.abs(v0 - va).max())}")
        ctx.event("stopped_by_threshold")
    if eps == 0:
        # no early stop: exactly `horizon` backups
        for bi, b in enumerate(B):
            val = float(alphas[bi] @ to_msdm_vec(b, sl))
            if horizon == 1:
                want = float(np.max(b @ arr.SR))
                ctx.check(abs(val - want) <= TOL * scale, "C08.backup.one_step_value_is_best_immediate_reward",
                          lambda: f"belief {b.tolist()}: {val} vs {want}")
            if case["revealing"] and horizon <= 4 and not case.get("small_set"):     # (needs every point belief in the set)
                want = arr.vk(b, horizon)
                ctx.check(abs(float(np.max(alphas @ to_msdm_vec(b, sl))) - want) <= TOL * scale,
                          "C08.backup.revealing_value_is_k_step_optimum", lambda: f"belief {b.tolist()}: {val} vs V*_{horizon} {want}")
    ctx.nontrivial(arr.k >= 2 and arr.m >= 2 and len(sl) >= 2 and any((b > 0).sum() >= 2 for b in B))


def check_value_policy(ctx, tag, policy, pomdp, view, sl, b):
    """action_dist(b) is uniform over exactly the maximisers of the policy's own action_value."""
    from msdm.core.pomdp.tabularpomdp import Belief
    bel = Belief(tuple(pomdp.state_list), tuple(float(b[s]) for s in sl))
    av = {a: policy.action_value(bel, a) for a in pomdp.action_list}
    mx = max(av.values())
    want = {a for a, v in av.items() if v == mx}
    got = {a: p for a, p in policy.action_dist(bel).items() if p > 0}
    ctx.check(set(got) == want and all(abs(p - 1 / len(want)) <= 1e-12 for p in got.values()),
              f"C08.{tag}.action_dist_uniform_over_own_maximisers", lambda: f"belief {b.tolist()}: {got} vs action values {av}")
    return bel, av


def prop_planner(case, ctx):
    from msdm.core.pomdp.tabularpomdp import Belief
    from msdm.core.distributions import DictDistribution
    from msdm.algorithms.pointbasedvalueiteration import PointBasedValueIteration
    from msdm.algorithms.qmdp import QMDP
    from msdm.algorithms.valueiteration import ValueIteration
    spec, pomdp, view, arr, sl = setup(case)
    eps, horizon = case["eps"], case["horizon"]
    if horizon is None:
        sar = pomdp.state_action_reward_matrix
        if eps <= 0 or float(sar.max() - sar.min()) <= eps:
            raise Rejected("derived horizon undefined")
    scale = 1 + max(abs(arr.rmin), abs(arr.rmax)) / (1 - arr.gamma)
    pb = PointBasedValueIteration(min_belief_expansions=case["min_exp"], max_belief_expansions=case["min_exp"] + case["extra_exp"] + 1,
                                  value_convergence_epsilon=eps, horizon=horizon)
    res = ctx.call("C08.pbvi.raises", pb.plan_on, pomdp)
    beliefs = arr.reachable_beliefs(2)[:10] + masked_beliefs(case, arr, sl)
    # QMDP with an explicit accurate solver, and with the default solver
    q1 = ctx.call("C08.qmdp.raises", QMDP(mdp_solver=ValueIteration(max_residual=1e-10)).plan_on, pomdp)
    q2 = ctx.call("C08.qmdp_default_solver.raises", QMDP().plan_on, pomdp)
    opt = arr.rm.optimal()
    qstar = opt["Q"].copy()
    qstar[arr.absorbing] = 0.0
    rmin_nonneg = arr.rmin >= 0
    for b in beliefs:
        bel, av = check_value_policy(ctx, "pbvi", res.policy, pomdp, view, sl, b)
        val = float(res.policy.value(bel))
        # the alpha-vector policy also accepts a belief as a distribution over states
        as_dist = DictDistribution({s: float(b[i]) for s, i in zip(pomdp.state_list, sl) if b[i] > 0})
        ctx.check(abs(float(res.policy.value(as_dist)) - val) <= 1e-9 * scale, "C08.pbvi.value_depends_on_belief_representation",
                  lambda: f"belief {b.tolist()}: value(Distribution) {res.policy.value(as_dist)} vs value(Belief) {val}")
        if horizon is not None and horizon <= 4:
            vmax = max(arr.vk(b, k) for k in range(0, horizon + 1))
            ctx.check(val <= vmax + TOL * scale, "C08.pbvi.value_exceeds_finite_horizon_optimum",
                      lambda: f"belief {b.tolist()}: PBVI {val} > max_k<=H V*_k = {vmax} (H={horizon})")
        up = arr.upper(b, 4)
        ctx.check(val <= up + max(0.0, -arr.rmin) / (1 - arr.gamma) + TOL * scale, "C08.pbvi.value_exceeds_optimal_plus_slack",
                  lambda: f"belief {b.tolist()}: PBVI {val}, upper bracket of V* {up}")
        for tag, q in (("qmdp", q1), ("qmdp_default_solver", q2)):
            check_value_policy(ctx, tag, q.policy, pomdp, view, sl, b)
            for a in pomdp.action_list:
                want = float(sum(b[s] * qstar[s, view.aidx[a]] for s in sl))
                got = float(q.policy.action_value(bel, a))
                # (the default solver is policy iteration, whose improvement step treats actions within np.isclose's default
                # tolerance as tied: its values may miss the optimum by that band times the horizon - as in C01)
                qtol = 1e-7 * scale if tag == "qmdp" else max(1e-7 * scale, (1e-5 * float(np.max(np.abs(qstar[np.isfinite(qstar)]))) + 1e-8) / (1 - arr.gamma))
                ctx.check(abs(got - want) <= qtol, f"C08.{tag}.action_value_is_belief_weighted_mdp_q",
                          lambda: f"belief {b.tolist()} action {a}: {got} vs {want}")
            qv = float(q.policy.value(bel))
            qmax = max(float(q.policy.action_value(bel, a)) for a in pomdp.action_list)
            ctx.check(abs(qv - qmax) <= 1e-9 * scale, f"C08.{tag}.value_is_max_action_value",
                      lambda: f"belief {b.tolist()}: value {qv}, max_a action_value {qmax}")
            # a Belief carries its own state order: the same belief listed in another order, or over its support
            # only, is the same belief
            order = list(range(len(sl)))[::-1]
            bel_rev = Belief(tuple(pomdp.state_list[i] for i in order), tuple(float(b[sl[i]]) for i in order))
            sup = [i for i in range(len(sl)) if b[sl[i]] > 0]
            bel_sup = Belief(tuple(pomdp.state_list[i] for i in sup), tuple(float(b[sl[i]]) for i in sup))
            for other, what in ((bel_rev, "reversed state order"), (bel_sup, "support only")):
                for a in pomdp.action_list:
                    ctx.check(abs(float(q.policy.action_value(other, a)) - float(q.policy.action_value(bel, a))) <= 1e-9 * scale,
                              f"C08.{tag}.action_value_depends_on_belief_representation",
                              lambda: f"belief {b.tolist()} ({what}) action {a}: {q.policy.action_value(other, a)} vs {q.policy.action_value(bel, a)}")
            lo = arr.lower(b, 4)
            ctx.check(qv >= lo - 1e-7 * scale, f"C08.{tag}.value_below_optimal", lambda: f"belief {b.tolist()}: QMDP {qv} < lower bracket {lo}")
            if rmin_nonneg:
                ctx.check(val <= qv + 1e-7 * scale, "C08.pbvi_exceeds_qmdp", lambda: f"belief {b.tolist()}: PBVI {val} > QMDP {qv}")
            if case["revealing"]:
                up5, lo5 = arr.upper(b, 5), arr.lower(b, 5)
                ctx.check(lo5 - 1e-7 * scale <= qv <= up5 + 1e-7 * scale, f"C08.{tag}.revealing_value_is_optimal",
                          lambda: f"belief {b.tolist()}: QMDP {qv} outside [{lo5},{up5}]")
    if case["revealing"]:
        ctx.event("revealing")
        if horizon is None and eps > 0 and case["min_exp"] >= 50:
            # (with a generous expansion budget - the default is 100 rounds - the belief set holds every reachable belief)
            # observations reveal the state: at the initial belief and at the point beliefs reachable from it the
            # point-based value must also not fall short of the optimum by more than the slack of its threshold
            # slack implied by the threshold and by the planning horizon msdm derives from it (Pineau et al.): after H backups
            # from alpha = 0 the value can still miss gamma^H * max(0, r_max) / (1 - gamma)
            sar_ = np.asarray(pomdp.state_action_reward_matrix)
            H_ = int(np.ceil(np.log(eps / float(sar_.max() - sar_.min())) / np.log(arr.gamma)))
            slack = 2 * eps / (1 - arr.gamma) + max(0.0, arr.rmax) * arr.gamma ** max(H_, 0) / (1 - arr.gamma) + 1e-7 * scale
            reach = arr.reachable_beliefs(2)[:10]
            for b in reach:
                if not (np.isclose(b.max(), 1.0) or np.allclose(b, arr.p0)):
                    continue
                bel = Belief(tuple(pomdp.state_list), tuple(float(b[i]) for i in sl))
                val = float(res.policy.value(bel))
                # (state revealed after every step: V*(b) = max_a sum_s b(s) Q*_MDP(s, a), exactly)
                vstar_b = max(float(sum(b[s_] * qstar[s_, a_] for s_ in sl)) for a_ in range(arr.m))
                ctx.check(val >= vstar_b - slack, "C08.pbvi.revealing_value_below_optimal",
                          lambda: f"belief {b.tolist()}: PBVI {val} < V* {vstar_b} - slack {slack}")
    if rmin_nonneg:
        ctx.event("nonnegative_rewards")
    ctx.nontrivial(arr.k >= 2 and arr.m >= 2 and len(sl) >= 2 and any((b > 0).sum() >= 2 for b in beliefs))


@st.composite
def reuse_cases(draw, tier="quick"):
    a = draw(pomdp_specs(max_states=3, max_actions=2, max_obs=2, gammas=[0.3, 0.5, 0.8]))
    b = draw(pomdp_specs(max_states=3, max_actions=2, max_obs=2, gammas=[0.3, 0.5, 0.8], reward_lo=-6, reward_hi=6))
    return {"a": a, "b": b, "eps": draw(st.sampled_from([1e-2, 1e-3])), "horizon": draw(st.sampled_from([None, None, 2])),
            "algo": draw(st.sampled_from(["pbvi", "pbvi", "qmdp"]))}


def prop_reuse(case, ctx):
    """a planner object reused on a second POMDP (other reward range / discount) behaves like a fresh one"""
    from msdm.algorithms.pointbasedvalueiteration import PointBasedValueIteration
    from msdm.algorithms.qmdp import QMDP
    from msdm.algorithms.valueiteration import ValueIteration
    from msdm.core.pomdp.tabularpomdp import Belief
    from vpm.checks.reuse import check_reuse
    pa, _ = build_pomdp(case["a"])
    pb, _ = build_pomdp(case["b"])
    for p in (pa, pb):
        sar = p.state_action_reward_matrix
        if case["algo"] == "pbvi" and case["horizon"] is None and float(sar.max() - sar.min()) <= case["eps"]:
            raise Rejected("derived horizon undefined")
    if case["algo"] == "pbvi":
        make = lambda: PointBasedValueIteration(min_belief_expansions=1, max_belief_expansions=3,
                                                value_convergence_epsilon=case["eps"], horizon=case["horizon"])
    else:
        make = lambda: QMDP(mdp_solver=ValueIteration(max_residual=1e-8))

    def summarize(r, p):
        b0 = Belief(tuple(p.state_list), tuple(float(x) for x in p.initial_state_vec))
        return {"v0": r.policy.value(b0), "q0": {a: r.policy.action_value(b0, a) for a in p.action_list},
                "alpha": getattr(r, "alpha_vectors", None)}
    check_reuse(ctx, "C08.reuse", make, lambda pl, m: pl.plan_on(m), summarize, pa, pb)
    ctx.nontrivial(case["a"] != case["b"])


PROPS = [
    Prop("reuse", lambda tier: reuse_cases(tier), prop_reuse, quick=200, thorough=12000,
         doc="a PBVI / QMDP planner object reused on a second POMDP gives the same result as a fresh one"),
    Prop("backup", lambda tier: cases(tier), prop_backup, quick=1200, thorough=60000,
         doc="point_based_value_iteration on a reference-built belief set: alpha values vs exact k-step optimum"),
    Prop("planner", lambda tier: cases(tier), prop_planner, quick=700, thorough=36000,
         doc="PointBasedValueIteration and QMDP planners: value bounds, own-action-value greediness, QMDP action values"),
]
