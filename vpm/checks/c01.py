"""C01 — value iteration and policy iteration are optimal (DESIGN.md 3, C01)."""
import math
import numpy as np
from hypothesis import strategies as st

from vpm.core import Prop, close, Rejected
from vpm.gen.mdp import mdp_specs
from vpm.build import build_mdp
from vpm.ref.mdp import RefMDP

PROPERTY_ID = "C01"
RULE = ("MDP specs (1-5 states quick, up to 7 thorough; 1-3 actions, state-dependent action sets, integer weights "
        "incl. zero-probability entries, integer rewards so exact ties occur, explicit+implicit absorbing states, "
        "multi-state initial distributions, inferred or explicit state lists) x solver configuration "
        "(residual, iteration cap, placeholder, implementation). Oracle: deterministic-policy enumeration with a "
        "linear solve per policy, certified by its Bellman residual. A case is non-trivial when it has >=2 "
        "non-absorbing states, some state whose available actions have different Q*, and at least one of "
        "{exact tie, implicit absorbing state, state-dependent action set, non-empty cannot-reach-absorbing set, "
        "multi-state initial distribution}; distinct = distinct (spec, configuration) hash."
        ' Also: problems of 16-45 states (certified policy-iteration oracle), rewards in other units (x1e12..1e-6), None / gapped-integer labels, batch members with their own vocabularies, model functions returning int flags / shared lists / Deterministic- and UniformDistributions.'
        ' 101-130-state problems; states all of whose actions are sure self-loops with cancelling rewards.')
ASSUMPTIONS = [
    "numpy.linalg.solve on <=7x7 well-conditioned systems is correct",
    "reference optimal values (policy enumeration) are certified per case by their Bellman residual (1e-7)",
    "undiscounted MDPs where a state outside the cannot-reach-absorbing set U can enter a negative-reward U are "
    "run but value/policy optimality is not asserted for them (statement is silent; counted as ambiguous_U_predecessor)",
]

TOL = 1e-9


def _rescaled(strategy):
    """the same problems with rewards in other units (costs in nanoseconds, prizes in millionths)"""
    def scale(t):
        spec, k = t
        for s_ in range(spec["n"]):
            for a_, outs in spec["trans"][s_]:
                for o_ in outs:
                    o_[2] = o_[2] * k
        return spec
    return st.tuples(strategy, st.sampled_from([1e12, 1e12, 1e9, 1e-6, 2.0 ** 40])).map(scale)


def _flav(tier):
    return st.one_of(_flav0(tier), _flav0(tier), _flav0(tier), _rescaled(_flav0(tier)))


def _flav0(tier):
    big = tier == "thorough"
    return st.one_of(
        mdp_specs("discounted", max_states=6 if big else 5, p0_zero_entries=True),
        mdp_specs("negative", max_states=6 if big else 5, p0_zero_entries=True),
        mdp_specs("discounted", max_states=7 if big else 5, max_actions=2),
        # long chains: reachability of absorbing states over paths of 5-7 transitions
        mdp_specs("negative", min_states=5, max_states=8 if big else 7, max_actions=2, p0_zero_entries=True,
                  absorbing_kinds=("n", "n", "n", "n", "n", "n", "n", "abs")),
    )


def _cfg(solver):
    return st.fixed_dictionaries({
        "solver": st.just(solver),
        "max_residual": st.sampled_from([1e-3, 1e-5, 1e-8, 1e-10]),
        "tiny_cap": st.sampled_from([0, 0, 0, 0, 0, 1, 2, 3]),
        "undefined_value": st.sampled_from([0, -7.5, "-inf"]),
    })


def strat(solver):
    def s(tier):
        return st.fixed_dictionaries({"mdp": _flav(tier), "cfg": _cfg(solver)})
    return s


def _undef(cfg):
    return float("-inf") if cfg["undefined_value"] == "-inf" else cfg["undefined_value"]


def _plan(ctx, mdp, cfg, name):
    from msdm.algorithms.valueiteration import ValueIteration
    from msdm.algorithms.policyiteration import PolicyIteration
    undef = _undef(cfg)
    cap = cfg["tiny_cap"] or int(1e5)
    solver = cfg["solver"]
    if solver in ("vi_vec", "vi_dict"):
        planner = ValueIteration(max_iterations=cap, max_residual=cfg["max_residual"], undefined_value=undef,
                                 _version="vectorized" if solver == "vi_vec" else "dict")
        return ctx.call(f"C01.{name}.raises", planner.plan_on, mdp)
    planner = PolicyIteration(max_iterations=cap, undefined_value=undef)
    if solver == "pi":
        return ctx.call(f"C01.{name}.raises", planner.plan_on, mdp)
    raise ValueError(solver)


def reference(spec):
    ref = RefMDP(spec)
    if ref.gamma < 1.0:
        U = np.zeros(ref.n, dtype=bool)
    else:
        U = ref.unable_to_reach_absorbing()
    zero = ref.absorbing | U
    opt = ref.optimal(zero=zero)
    ambiguous = False
    if U.any():
        strict = ref.optimal(zero=ref.absorbing)
        for s in range(ref.n):
            if not zero[s] and not close(float(strict["V"][s]), float(opt["V"][s]), 1e-9, 1e-9):
                ambiguous = True
    return ref, U, zero, opt, ambiguous


def policy_row(res_policy, mdp, view, s_label):
    """dict action-index -> prob from the returned policy at a state."""
    dist = res_policy.action_dist(s_label)
    return {view.aidx[a]: float(p) for a, p in dist.items() if a in view.aidx}   # (foreign names are reported by the caller)


def check_result(ctx, spec, cfg, res, mdp, view, name, refpack=None, pfx="C01"):
    ref, U, zero, opt, ambiguous = refpack or reference(spec)
    n, m, gamma = ref.n, ref.m, ref.gamma
    undef = _undef(cfg)
    exact = cfg["solver"].startswith("pi")
    residual = 0.0 if exact else cfg["max_residual"]
    states = [view.sidx[s] for s in mdp.state_list]
    Vstar, Qstar = opt["V"], opt["Q"]

    # 4. initial value is the p0-expectation of the reported table
    iv = sum(float(res.state_value[view.S[s]]) * p for s, p in view.p0 if p > 0)
    ctx.check(close(float(res.initial_value), iv, 1e-12, 1e-12), f"{pfx}.{name}.initial_value_expectation",
              lambda: f"initial_value={res.initial_value} but sum p0*state_value={iv}")

    # keys / shape
    ctx.check(set(res.state_value.keys()) == set(mdp.state_list), f"{pfx}.{name}.state_value_keys")

    V = {s: float(res.state_value[view.S[s]]) for s in states}
    for s in states:
        if ref.absorbing[s]:
            ctx.check(V[s] == 0, f"{pfx}.{name}.absorbing_value_zero", lambda: f"state {s}: {V[s]}")
        elif U[s]:
            ctx.check(V[s] == undef, f"{pfx}.{name}.placeholder_at_U", lambda: f"state {s}: {V[s]} != {undef}")

    # policy well-formedness everywhere (incl. U states): probability vector on available actions
    rows = {}
    for s in states:
        dist_ = res.policy.action_dist(view.S[s])
        foreign = [a for a, p in dist_.items() if a not in view.aidx]
        ctx.check(not foreign, f"{pfx}.{name}.policy_names_foreign_action",
                  lambda: f"state {s}: the policy names {foreign!r}, which are not actions of this MDP ({list(view.aidx)!r})")
        row = policy_row(res.policy, mdp, view, view.S[s])
        rows[s] = row
        if ref.absorbing[s]:
            continue
        tot = sum(row.values())
        ctx.check(abs(tot - 1) <= 1e-9, f"{pfx}.{name}.policy_row_sum", lambda: f"state {s}: {row}")
        bad = [a for a, p in row.items() if p > 0 and not ref.avail[s, a]]
        ctx.check(not bad, f"{pfx}.{name}.policy_unavailable_action",
                  lambda: f"state {s} (U={bool(U[s])}) policy {row} avail {ref.avail[s].tolist()}")
        sup = [p for p in row.values() if p > 0]
        ctx.check(max(sup) - min(sup) <= 1e-12, f"{pfx}.{name}.policy_uniform_on_support", lambda: f"state {s}: {row}")
        if U[s]:
            want = {a for a in range(m) if ref.avail[s, a]}
            got = {a for a, p in row.items() if p > 0}
            ctx.check(got == want or bool(bad), f"{pfx}.{name}.policy_at_U_all_available", lambda: f"{s}: {row}")

    converged = bool(res.converged)
    if cfg["tiny_cap"]:
        ctx.event("tiny_cap")
        return
    if gamma < 1.0 and not exact:
        rmax = max(ref.rmax_abs(), 1e-300)
        need = math.ceil(math.log(residual * (1 - gamma) / rmax) / math.log(gamma)) + 2 if rmax > residual else 2
        # (only where the threshold is reachable in floating point: successive sweeps cannot agree to better than a few
        # ulps of the largest value, ~1e-16 * |r|max / (1 - gamma))
        reachable_threshold = residual > 1e-14 * rmax / (1 - gamma)
        if need < 1e5 - 2 and reachable_threshold:
            ctx.check(converged, f"{pfx}.{name}.converged_flag", lambda: f"iterations={res.iterations} need<={need}")
        elif not reachable_threshold:
            ctx.event("residual_threshold_below_floating_point_floor")
    if not converged:
        ctx.event("not_converged")
        return
    if ambiguous:
        ctx.event("ambiguous_U_predecessor")
        return

    # expected steps of the returned policy (for the undiscounted bound)
    pi = np.zeros((n, m))
    for s in range(n):
        if s in rows and not zero[s]:
            for a, p in rows[s].items():
                if ref.avail[s, a]:
                    pi[s, a] = p
        else:
            a0 = int(np.argmax(ref.avail[s]))
            pi[s, a0] = 1.0
    if pi.sum(1).min() < 1 - 1e-6:
        return  # malformed policy already reported above
    pi = pi / pi.sum(1, keepdims=True)
    vmax = max([abs(v) for s, v in V.items() if not zero[s] and math.isfinite(v)] + [0.0])
    # greedy sets are decided with np.isclose (rtol 1e-5, atol 1e-8) by every solver, policy iteration included:
    # an action within that band of the maximum may be mixed in ("numerical near-ties aside")
    delta = 1e-5 * vmax + 1e-8
    if gamma < 1.0:
        H = np.full(n, 1.0 / (1.0 - gamma))
        if not exact:
            delta = 0.0  # value iteration: ||V_k - V*|| <= residual/(1-gamma) needs no tie allowance
    else:
        H = ref.expected_steps(pi, zero=zero)
    # (TOL * vmax covers rounding relative to the values; rewards far larger than any optimal value - a -1e12 penalty an
    # optimal policy avoids - still sit in the linear systems of msdm and of the reference: their rounding is relative to them)
    bound = (residual + delta) * H + TOL * (1 + vmax) + 1e-13 * ref.rmax_abs() * np.where(np.isfinite(H), H, 1.0)

    # 1. values
    nz = [s for s in states if not zero[s]]
    for s in nz:
        if gamma == 1.0:
            ctx.check(V[s] >= Vstar[s] - TOL * (1 + abs(Vstar[s])) - 1e-13 * ref.rmax_abs() * n, f"{pfx}.{name}.value_below_optimal",
                      lambda: f"state {s}: {V[s]} < V*={Vstar[s]}")
        if math.isfinite(bound[s]):
            ctx.check(abs(V[s] - Vstar[s]) <= bound[s], f"{pfx}.{name}.value_optimal",
                      lambda: f"state {s}: reported {V[s]} optimal {Vstar[s]} bound {bound[s]}")
        else:
            ctx.event("infinite_horizon_bound")

    # 2. policy support
    finite_H = [H[s] for s in nz]
    b = (residual + delta) * max(finite_H) if finite_H else 0.0
    qmax_abs = max([abs(Qstar[s, a]) for s in nz for a in range(m) if ref.avail[s, a]] + [0.0])
    any_tie = False
    any_diff = False
    if math.isfinite(b):
        gap = 2 * b + 2e-5 * qmax_abs + 1e-7
        for s in nz:
            acts = [a for a in range(m) if ref.avail[s, a]]
            best = max(Qstar[s, a] for a in acts)
            ties = [a for a in acts if abs(Qstar[s, a] - best) <= 1e-12]
            if len(ties) > 1:
                any_tie = True
            if any(Qstar[s, a] < best - 1e-6 for a in acts):
                any_diff = True
            row = rows[s]
            sup = {a for a, p in row.items() if p > 0}
            for a in acts:
                if Qstar[s, a] < best - gap:
                    ctx.check(a not in sup, f"{pfx}.{name}.policy_suboptimal_action",
                              lambda: f"state {s}: action {a} Q*={Qstar[s, a]} best={best} gap={gap} policy={row}")
            sure = 2 * b <= 0.25 * (1e-8 + 1e-5 * abs(best))
            for a in ties:
                ident = any(a2 != a and a2 in sup and spec_row(spec, s, a) == spec_row(spec, s, a2) for a2 in ties)
                if sure or ident:
                    ctx.check(a in sup, f"{pfx}.{name}.policy_misses_tied_action",
                              lambda: f"state {s}: tied actions {ties} policy {row}")
                else:
                    ctx.event("tie_in_numerical_band")
        # 3. exact return of the returned policy
        ev = ref.evaluate(pi, zero=zero)
        jstar = float(np.where(ref.p0 > 0, ref.p0 * np.where(zero, 0.0, Vstar), 0.0).sum())
        jpi = float(np.where(ref.p0 > 0, ref.p0 * np.where(zero, 0.0, ev["V"]), 0.0).sum())
        Hbar = float(np.where(ref.p0 > 0, ref.p0 * np.where(zero, 0.0, H), 0.0).sum())
        ffloor = 1e-13 * ref.rmax_abs() * (n if gamma == 1.0 else 1.0 / (1.0 - gamma))
        ctx.check(jpi <= jstar + TOL * (1 + abs(jstar)) + ffloor and jpi >= jstar - gap * max(Hbar, 1.0) - TOL - ffloor,
                  f"{pfx}.{name}.policy_return_optimal", lambda: f"J_pi={jpi} J*={jstar} gap={gap} H={Hbar}")
    else:
        ctx.event("policy_check_skipped_infinite_horizon")

    n_nonabs = sum(1 for s in states if not ref.absorbing[s])
    feats = [any_tie, bool(ref.implicit_abs.any()), len({tuple(r) for r in ref.avail.tolist()}) > 1,
             bool(U.any()), len([1 for _, w in spec["p0"] if w > 0]) > 1]
    if any_tie:
        ctx.event("has_exact_tie")
    if U.any():
        ctx.event("U_nonempty")
    if ref.implicit_abs.any():
        ctx.event("implicit_absorbing")
    if spec["explicit_states"] is not None:
        ctx.event("explicit_state_list")
    ctx.nontrivial(n_nonabs >= 2 and any_diff and any(feats))


def zero_reward_closed_set(mdp_spec):
    """Greatest set C of non-absorbing states such that every s in C has an action whose
    positive-probability successors all stay in C and all pay 0 (a policy can park there
    forever for free)."""
    ref = RefMDP(mdp_spec)
    C = {s for s in range(ref.n) if not ref.absorbing[s]}
    changed = True
    while changed:
        changed = False
        for s in list(C):
            ok = False
            for a in range(ref.m):
                if not ref.avail[s, a]:
                    continue
                succ = [ns for ns in range(ref.n) if ref.W[s, a, ns] > 0]
                if all(ns in C for ns in succ) and all(ref.R[s, a, ns] == 0 for ns in succ):
                    ok = True
            if not ok:
                C.discard(s)
                changed = True
    return C


def _kp_pi_zero_reward_cycle(case, msg):
    specs = [case["mdp"]] if "mdp" in case else case["mdps"]
    return any(sp["gamma"] == 1.0 and len(zero_reward_closed_set(sp)) > 0 for sp in specs)


KNOWN_PREDICATES = {"pi_zero_reward_cycle": _kp_pi_zero_reward_cycle}


def spec_row(spec, s, a):
    for a2, outs in spec["trans"][s]:
        if a2 == a:
            return sorted(map(tuple, outs))
    return None


def prop_solver(case, ctx):
    spec, cfg = case["mdp"], case["cfg"]
    mdp, view = build_mdp(spec)
    name = cfg["solver"]
    res = _plan(ctx, mdp, cfg, name)
    check_result(ctx, spec, cfg, res, mdp, view, name)


def large_cases(tier):
    """16-45 states (discounted any-sign rewards; proper undiscounted / discounted cost problems)"""
    from vpm.gen.mdp import large_mdp_specs
    return st.tuples(st.one_of(large_mdp_specs("discounted"), large_mdp_specs("discounted", gammas=[0.99, 0.999]),
                               large_mdp_specs("ssp"), large_mdp_specs("dproper"),
                               large_mdp_specs("discounted", min_states=101, max_states=130, max_actions=2, max_out=3, gammas=[0.5, 0.9])),
                     st.sampled_from(["vi_vec", "vi_vec", "pi", "pi", "vi_dict"]), st.sampled_from([1e-5, 1e-8, 1e-10]),
                     st.sampled_from([0, -7.5, "-inf"])).map(
        lambda t: {"mdp": t[0], "cfg": {"solver": t[1], "max_residual": t[2], "tiny_cap": 0, "undefined_value": t[3]}})


def prop_vi_diff(case, ctx):
    """vectorised and dict value iteration agree with each other."""
    spec, cfg = case["mdp"], dict(case["cfg"])
    mdp, view = build_mdp(spec)
    cfg["tiny_cap"] = 0
    r1 = _plan(ctx, mdp, dict(cfg, solver="vi_vec"), "diff")
    r2 = _plan(ctx, mdp, dict(cfg, solver="vi_dict"), "diff")
    ref = RefMDP(spec)
    gamma = ref.gamma
    U = ref.unable_to_reach_absorbing() if gamma == 1.0 else np.zeros(ref.n, dtype=bool)
    zero = ref.absorbing | U
    res = cfg["max_residual"]
    diff_seen = False
    for s in mdp.state_list:
        i = view.sidx[s]
        v1, v2 = float(r1.state_value[s]), float(r2.state_value[s])
        if zero[i]:
            ctx.check(v1 == v2, "C01.diff.values_equal_at_cut_states", lambda: f"{i}: {v1} vs {v2}")
            continue
        if gamma < 1.0:
            # (+ the floating-point floor: rounding of values of size |v| is amplified by the horizon 1/(1-gamma))
            # (rewards of opposite sign can cancel: the floor is set by the largest reward, not by the resulting value)
            b = 2 * res / (1 - gamma) + 1e-9 + 1e-14 * max(abs(v1), abs(v2), ref.rmax_abs() / (1 - gamma)) / (1 - gamma)
            ctx.check(abs(v1 - v2) <= b, "C01.diff.values_agree", lambda: f"state {i}: vec {v1} dict {v2} bound {b}")
        else:
            # both are upper bounds converging monotonically; compare only loosely through their policies' horizon
            pass
        if abs(v1 - v2) > 0:
            diff_seen = True
    if gamma == 1.0:
        ctx.event("undiscounted_diff_via_oracle_only")
    ctx.nontrivial(diff_seen and (~zero).sum() >= 2)


def prop_pi_batch(case, ctx):
    """batch_plan_on([m1, m2, ...])[i] equals plan_on(m_i) and is optimal."""
    from msdm.algorithms.policyiteration import PolicyIteration
    specs = case["mdps"]
    cfg = case["cfg"]
    built = [build_mdp(s) for s in specs]
    mdps = [b[0] for b in built]
    shapes = {(len(m_.state_list), len(m_.action_list)) for m_ in mdps}
    if len(shapes) != 1:
        raise Rejected("shapes differ")
    planner = PolicyIteration(undefined_value=_undef(cfg))
    batch = ctx.call("C01.pi_batch.raises", planner.batch_plan_on, mdps)
    ctx.check(len(batch) == len(mdps), "C01.pi_batch.length")
    for spec, (mdp, view), rb in zip(specs, built, batch):
        check_result(ctx, spec, dict(cfg, solver="pi_batch"), rb, mdp, view, "pi_batch")
        single = ctx.call("C01.pi_batch.single_raises", planner.plan_on, mdp)
        for s in mdp.state_list:
            ctx.check(close(float(rb.state_value[s]), float(single.state_value[s]), 1e-9, 1e-9),
                      "C01.pi_batch.equals_single", lambda: f"{s}: {rb.state_value[s]} vs {single.state_value[s]}")
    ctx.nontrivial(len(mdps) >= 2)


@st.composite
def batch_cases(draw, tier="quick"):
    """1-3 MDPs with the same state/action shape: a base spec and re-weighted copies."""
    base = draw(st.one_of(mdp_specs("discounted", max_states=5, allow_explicit=False, uniform_actions=True),
                          mdp_specs("negative", max_states=5, allow_explicit=False, uniform_actions=True)))
    k = draw(st.integers(1, 3))
    specs = [base]
    for _ in range(k - 1):
        import copy
        sp = copy.deepcopy(base)
        for s in range(sp["n"]):
            for a, outs in sp["trans"][s]:
                for o in outs:
                    if o[1] > 0:
                        o[1] = draw(st.integers(1, 4))
                    if not (sp["flavour"] == "negative"):
                        o[2] = draw(st.integers(-3, 3))
                    else:
                        o[2] = draw(st.integers(-3, 0))
        # members of a batch share a shape, not a vocabulary: other action / state labels (other scheme, other order)
        from vpm.labels import enc, state_labels, action_labels
        if draw(st.booleans()):
            al = action_labels(draw(st.sampled_from(["int", "str", "tuple"])), sp["m"])
            sp["alabels"] = [enc(x) for x in draw(st.permutations(al))]
        if draw(st.integers(0, 2)) == 0:
            sl = state_labels(draw(st.sampled_from(["int", "str", "tuple"])), sp["n"])
            sp["slabels"] = [enc(x) for x in draw(st.permutations(sl))]
        specs.append(sp)
    cfg = draw(_cfg("pi_batch"))
    cfg["tiny_cap"] = 0
    return {"mdps": specs, "cfg": cfg}


@st.composite
def reuse_cases(draw, tier="quick"):
    fl = draw(st.sampled_from(["discounted", "negative"]))
    a = draw(mdp_specs(fl, max_states=5))
    b = draw(mdp_specs(draw(st.sampled_from(["discounted", "negative"])), max_states=5))
    cfg = draw(_cfg(draw(st.sampled_from(["vi_vec", "vi_dict", "pi"]))))
    cfg["tiny_cap"] = 0
    return {"a": a, "b": b, "cfg": cfg}


def prop_reuse(case, ctx):
    """a planner object used on one MDP gives, on the next MDP, what a fresh planner gives"""
    from msdm.algorithms.valueiteration import ValueIteration
    from msdm.algorithms.policyiteration import PolicyIteration
    from vpm.checks.reuse import check_reuse, policy_table
    cfg = case["cfg"]
    undef = _undef(cfg)

    def make():
        if cfg["solver"] == "pi":
            return PolicyIteration(undefined_value=undef)
        return ValueIteration(max_residual=cfg["max_residual"], undefined_value=undef,
                              _version="vectorized" if cfg["solver"] == "vi_vec" else "dict")
    ma, _ = build_mdp(case["a"])
    mb, _ = build_mdp(case["b"])
    check_reuse(ctx, "C01.reuse", make, lambda pl, m: pl.plan_on(m),
                lambda r, m: {"V": dict(r.state_value.items()), "pi": policy_table(r.policy, list(m.state_list)),
                              "iv": r.initial_value, "conv": bool(r.converged)}, ma, mb)
    ctx.nontrivial(case["a"] != case["b"])


PROPS = [
    Prop("solver_large", large_cases, prop_solver, quick=120, thorough=8000,
         doc="value iteration (both versions) and policy iteration on MDPs with 16-45 states vs a certified policy-iteration oracle"),
    Prop("vi_vec", strat("vi_vec"), prop_solver, quick=1400, thorough=60000,
         doc="vectorised value iteration vs policy-enumeration oracle"),
    Prop("vi_dict", strat("vi_dict"), prop_solver, quick=500, thorough=18000,
         doc="dict value iteration vs policy-enumeration oracle"),
    Prop("pi", strat("pi"), prop_solver, quick=1200, thorough=60000,
         doc="policy iteration (plan_on) vs policy-enumeration oracle"),
    Prop("vi_diff", strat("vi_vec"), prop_vi_diff, quick=200, thorough=12000,
         doc="vectorised vs dict value iteration differential"),
    Prop("pi_batch", lambda tier: batch_cases(tier), prop_pi_batch, quick=200, thorough=15000,
         doc="PolicyIteration.batch_plan_on vs plan_on vs oracle"),
    Prop("reuse", lambda tier: reuse_cases(tier), prop_reuse, quick=300, thorough=18000,
         doc="a planner object reused on a second MDP gives the same result as a fresh planner"),
]
