"""Hash-seed worker: reads one JSON scenario per line on stdin, answers one JSON line with its digest.
Started by the C13 check with a specific PYTHONHASHSEED."""
import json
import os
import sys
import traceback
import warnings

HERE = os.path.dirname(os.path.abspath(__file__))
ROOT = os.path.dirname(os.path.dirname(HERE))
sys.path.insert(0, ROOT)
sys.path.insert(0, os.environ.get("MSDM_REPO", "/repo"))
warnings.filterwarnings("ignore")
import logging
logging.disable(logging.WARNING)


def main():
    from vpm.checks.c13_scenarios import run_scenario
    out = sys.stdout
    out.write(json.dumps({"ready": os.environ.get("PYTHONHASHSEED")}) + "\n")
    out.flush()
    for line in sys.stdin:
        line = line.strip()
        if not line:
            continue
        try:
            scn = json.loads(line)
            d = run_scenario(scn)
            out.write(json.dumps({"digest": d}) + "\n")
        except Exception as e:
            out.write(json.dumps({"error": f"{type(e).__name__}: {e}", "tb": traceback.format_exc()[-1500:]}) + "\n")
        out.flush()


if __name__ == "__main__":
    main()
