"""C05 — A* and breadth-first search return valid minimum-cost / minimum-step paths."""
import heapq
from collections import deque
from fractions import Fraction
from hypothesis import strategies as st

from vpm.core import Prop, ExhaustiveProp
from vpm.labels import enc, dec

PROPERTY_ID = "C05"
FUZZ = {"props": ["astar", "bfs"], "quick": [2, 800], "thorough": [8, 30000]}
RULE = ("Directed multigraphs (1-9 nodes, integer edge costs 0..5 incl. zero-cost edges, self-loops, parallel edges, "
        "dead ends, 0-3 goals possibly unreachable) x representation of the single-outcome transition / initial "
        "distribution (next_state, DeterministicDistribution, 1-entry DictDistribution, 1-element "
        "UniformDistribution, DeterministicShortestPathProblem subclass) x heuristic (zero, exact, relaxed-goal-set distance, capped / shifted exact, dyadic and non-dyadic fraction "
        "of exact; consistent by construction) x tie_breaking x seed x randomize_action_order. Oracle: own Dijkstra "
        "/ BFS and a path validator. Non-trivial: no goal reachable from a start with >=2 reachable nodes, or a "
        "reachable goal at distance >0 with a strictly sub-optimal alternative edge or a zero-cost edge on a "
        "shortest path; distinct by spec hash."
        ' Also: consistent heuristics not proportional to the exact one (relaxed goal sets, capped / shifted exact), free moves, origin-centred (hash-colliding) integer and coordinate labels.'
        ' Both problems converted with from_mdp first, planning on the earlier conversion.')
ASSUMPTIONS = ["integer costs and dyadic heuristic scalings keep A*'s float arithmetic exact; with the non-dyadic scalings a (0.1, 0.3, "
               "0.7, 0.9) x exact, an edge of cost c >= 1 raises the estimated total by >= c (1 - a) >= 0.1 and a free edge either joins "
               "states of equal cost-to-go (bit-identical sums) or raises it by >= a, so one-ulp rounding never decides a comparison"]


@st.composite
def graph_specs(draw, tier="quick", large=None):
    large = draw(st.integers(0, 5)) == 0 if large is None else large
    if large:
        # big frontiers: many nodes, higher out-degree, wide cost range (queue revision / heap order matter)
        n = draw(st.integers(10, 40))
    else:
        n = draw(st.integers(1, 9 if tier == "thorough" else 7))
    # "centred": integers / coordinates around the origin - CPython hashes -1 and -2 (and tuples that differ only there)
    # to the same value, so distinct states with equal hashes are routine on such grids
    scheme = draw(st.sampled_from(["int", "str", "tuple", "centred_int", "centred_tuple"]))
    half = n // 2
    labels = [{"int": i, "str": f"n{i}", "tuple": (i // 3, i % 3), "centred_int": i - half - 1,
               "centred_tuple": (i % 4 - 2, i // 4 - 1)}[scheme] for i in range(n)]
    perm = draw(st.permutations(list(range(n))))
    labels = [labels[perm[i]] for i in range(n)]
    nact = draw(st.integers(2, 5)) if large else draw(st.integers(1, 3))
    maxcost = 20 if large else 5
    edges = []
    for u in range(n):
        k = draw(st.integers(0 if n > 1 else 0, nact))
        acts = draw(st.lists(st.integers(0, nact - 1), min_size=k, max_size=k, unique=True))
        row = []
        for a in acts:
            v = draw(st.integers(0, n - 1))
            if draw(st.integers(0, 2)) > 0 and n > 1 and not large:
                v = min(n - 1, u + draw(st.integers(1, 2)))
            row.append([a, v, draw(st.integers(0, maxcost))])
        edges.append(row)
    ng = draw(st.integers(0, 3))
    goals = sorted(set(draw(st.lists(st.integers(0, n - 1), min_size=ng, max_size=ng))))
    if large:
        goals = [g for g in goals if g >= n // 2] or [n - 1]
    return {
        "n": n, "labels": [enc(l) for l in labels], "edges": edges, "goals": goals,
        "start": draw(st.integers(0, n - 1)),
        "rep": draw(st.sampled_from(["next_state", "det", "dict1", "unif1", "dsp"])),
        "init_rep": draw(st.sampled_from(["initial_state", "det", "dict1", "unif1"])),
    }


@st.composite
def astar_cases(draw, tier="quick"):
    g = draw(graph_specs(tier))
    tb = draw(st.sampled_from(["lifo", "fifo", "random"]))
    rao = draw(st.booleans())
    seed = None
    if tb == "random" or rao:
        seed = draw(st.one_of(st.sampled_from([0, 1, 2 ** 31 - 1]), st.integers(0, 10 ** 6)))
    # (0.3 / 0.1 / 0.7 / 0.9: scalings whose products are not exact in binary - with integer costs every comparison A* makes
    # is still either between bit-identical sums or decided by a margin >= 0.1, see ASSUMPTIONS)
    hk = draw(st.sampled_from(["zero", "exact", "0.25", "0.5", "0.75", "relaxed", "relaxed", "cap", "minus", "0.3", "0.1", "0.7", "0.9"]))
    if hk == "relaxed":
        hk = "relaxed:" + ",".join(str(u) for u in draw(st.lists(st.integers(0, g["n"] - 1), min_size=1, max_size=max(1, g["n"] // 3), unique=True)))
    elif hk in ("cap", "minus"):
        hk = f"{hk}:{draw(st.integers(1, 6))}"
    return {"graph": g, "heuristic": hk,
            "tie_breaking": tb, "randomize_action_order": rao, "seed": seed}


@st.composite
def bfs_cases(draw, tier="quick"):
    g = draw(graph_specs(tier))
    return {"graph": g, "randomize_action_order": draw(st.booleans()),
            "seed": draw(st.integers(0, 10 ** 6))}


# ---------------- reference ----------------
def ref_dijkstra_from(g, src):
    dist = {src: 0}
    pq = [(0, src)]
    while pq:
        d, u = heapq.heappop(pq)
        if d > dist.get(u, float("inf")):
            continue
        if u in g["goals"]:
            continue  # absorbing: never expanded
        for a, v, c in g["edges"][u]:
            if d + c < dist.get(v, float("inf")):
                dist[v] = d + c
                heapq.heappush(pq, (d + c, v))
    return dist


def ref_bfs_from(g, src):
    dist = {src: 0}
    q = deque([src])
    while q:
        u = q.popleft()
        if u in g["goals"]:
            continue
        for a, v, c in g["edges"][u]:
            if v not in dist:
                dist[v] = dist[u] + 1
                q.append(v)
    return dist


def ref_to_go(g, goals=None):
    """Exact cost-to-go to the nearest goal for every node (inf if none), by Bellman-Ford."""
    n = g["n"]
    goals = g["goals"] if goals is None else goals
    d = [0 if u in goals else float("inf") for u in range(n)]
    for _ in range(n + 1):
        for u in range(n):
            if u in goals:
                continue
            for a, v, c in g["edges"][u]:
                if c + d[v] < d[u]:
                    d[u] = c + d[v]
    return d


def build_problem(g):
    from msdm.core.mdp import QuickMDP
    from msdm.core.mdp.deterministic_shortest_path import DeterministicShortestPathProblem
    from msdm.core.distributions import DeterministicDistribution, DictDistribution, UniformDistribution
    L = [dec(x) for x in g["labels"]]
    idx = {l: i for i, l in enumerate(L)}
    nxt = {(u, a): v for u in range(g["n"]) for a, v, c in g["edges"][u]}
    cost = {(u, a): c for u in range(g["n"]) for a, v, c in g["edges"][u]}
    goals = set(g["goals"])

    def wrap(rep, x):
        if rep == "det":
            return DeterministicDistribution(x)
        if rep == "dict1":
            return DictDistribution({x: 1.0})
        if rep == "unif1":
            return UniformDistribution([x])
        raise ValueError(rep)

    def actions(s):
        return tuple(a for a, v, c in g["edges"][idx[s]])

    def reward(s, a, ns):
        return -cost[(idx[s], a)]

    def is_absorbing(s):
        return idx[s] in goals

    def next_state(s, a):
        return L[nxt[(idx[s], a)]]

    start = L[g["start"]]
    if g["rep"] == "dsp":
        class P(DeterministicShortestPathProblem):
            pass
        P.actions = staticmethod(actions)
        P.reward = staticmethod(reward)
        P.is_absorbing = staticmethod(is_absorbing)
        P.next_state = staticmethod(next_state)
        P.initial_state = staticmethod(lambda: start)
        return P(), L, idx, nxt, cost
    kw = {}
    if g["rep"] == "next_state":
        kw["next_state"] = next_state
    else:
        kw["next_state_dist"] = lambda s, a: wrap(g["rep"], next_state(s, a))
    if g["init_rep"] == "initial_state":
        kw["initial_state"] = start
    else:
        kw["initial_state_dist"] = wrap(g["init_rep"], start)
    mdp = QuickMDP(reward=reward, actions=actions, is_absorbing=is_absorbing, **kw)
    return mdp, L, idx, nxt, cost


def validate_path(ctx, tag, g, res, L, idx, nxt, cost):
    path = [idx[s] for s in res.path]
    ctx.check(path[0] == g["start"], f"C05.{tag}.path_starts_at_initial_state", lambda: f"{path}")
    ctx.check(path[-1] in g["goals"], f"C05.{tag}.path_ends_at_absorbing", lambda: f"{path} goals {g['goals']}")
    ctx.check(not any(u in g["goals"] for u in path[:-1]), f"C05.{tag}.path_passes_through_absorbing", lambda: f"{path}")
    total = 0
    for u, v in zip(path[:-1], path[1:]):
        dist = res.policy.action_dist(L[u])
        items = [(a, p) for a, p in dist.items() if p > 0]
        ctx.check(len(items) == 1 and items[0][1] == 1, f"C05.{tag}.policy_point_mass", lambda: f"{items}")
        a = items[0][0]
        ctx.check((u, a) in nxt and nxt[(u, a)] == v, f"C05.{tag}.policy_follows_real_transition",
                  lambda: f"at {u} action {a} leads to {nxt.get((u, a))}, path says {v}")
        total += cost.get((u, a), 0)
    return path, total


def _nontrivial(g, dist, togo):
    start = g["start"]
    reach_goals = [u for u in g["goals"] if u in dist]
    if not reach_goals:
        return len(dist) >= 2
    if togo[start] == 0 and start in g["goals"]:
        return False
    alt = any(u in dist and u not in g["goals"] and dist[u] + c > dist.get(v, float("inf")) for u in range(g["n"])
              for a, v, c in g["edges"][u])
    zero_on_opt = any(u in dist and u not in g["goals"] and c == 0 and v != u and togo[u] == togo[v] and
                      dist[u] + togo[u] == togo[start] for u in range(g["n"]) for a, v, c in g["edges"][u])
    return alt or zero_on_opt


def prop_astar(case, ctx):
    from msdm.algorithms.search import AStarSearch
    g = case["graph"]
    mdp, L, idx, nxt, cost = build_problem(g)
    togo = ref_to_go(g)
    finite = [d for d in togo if d != float("inf")]
    M = (max(finite) if finite else 0) + 1
    h = case["heuristic"]
    if h == "zero":
        hv = lambda s: 0
    elif h.startswith("relaxed:"):
        # exact cost-to-go of a relaxed problem with extra goal nodes: consistent (a distance to a set), admissible, and
        # not proportional to the exact heuristic (0 on part of the state space)
        extra = [int(x) for x in h.split(":", 1)[1].split(",") if x != ""]
        tg2 = ref_to_go(g, goals=sorted(set(g["goals"]) | set(extra)))
        M2 = max([M] + [d + 1 for d in tg2 if d != float("inf")])     # dead ends: above every finite value (consistency)
        hv = lambda s: -(tg2[idx[s]] if tg2[idx[s]] != float("inf") else M2)
    elif h.startswith("cap:") or h.startswith("minus:"):
        # min(h*, c) and max(0, h* - c) are consistent as well
        c_ = int(h.split(":", 1)[1])
        f_ = (lambda x: min(x, c_)) if h.startswith("cap:") else (lambda x: max(0, x - c_))
        hv = lambda s: -f_(togo[idx[s]] if togo[idx[s]] != float("inf") else M)
    else:
        alpha = 1.0 if h == "exact" else float(h)
        hv = lambda s: -(alpha * (togo[idx[s]] if togo[idx[s]] != float("inf") else M))
    kw = dict(heuristic_value=hv, tie_breaking_strategy=case["tie_breaking"],
              randomize_action_order=case["randomize_action_order"])
    if case["seed"] is not None:
        kw["seed"] = case["seed"]
    res = ctx.call("C05.astar.raises", lambda: AStarSearch(**kw).plan_on(mdp))
    dist = ref_dijkstra_from(g, g["start"])
    best = min([dist[u] for u in g["goals"] if u in dist], default=None)
    if best is None:
        ctx.check(res is None, "C05.astar.plan_despite_unreachable_goal", lambda: f"{res}")
        ctx.event("no_goal_reachable")
    else:
        ctx.check(res is not None, "C05.astar.no_plan_despite_reachable_goal", lambda: f"distance {best}")
        if res is not None:
            path, total = validate_path(ctx, "astar", g, res, L, idx, nxt, cost)
            ctx.check(total == res.path_value, "C05.astar.path_value_is_path_cost", lambda: f"{total} vs {res.path_value}")
            ctx.check(total == best, "C05.astar.minimum_cost", lambda: f"path {path} costs {total}, optimum {best}")
    ctx.event("rep=" + g["rep"])
    ctx.event("init_rep=" + g["init_rep"])
    ctx.nontrivial(_nontrivial(g, dist, togo))


def prop_bfs(case, ctx):
    from msdm.algorithms.search import BreadthFirstSearch
    g = case["graph"]
    mdp, L, idx, nxt, cost = build_problem(g)
    res = ctx.call("C05.bfs.raises", lambda: BreadthFirstSearch(
        seed=case["seed"], randomize_action_order=case["randomize_action_order"]).plan_on(mdp))
    dist = ref_bfs_from(g, g["start"])
    best = min([dist[u] for u in g["goals"] if u in dist], default=None)
    if best is None:
        ctx.check(res is None, "C05.bfs.plan_despite_unreachable_goal", lambda: f"{res}")
    else:
        ctx.check(res is not None, "C05.bfs.no_plan_despite_reachable_goal", lambda: f"steps {best}")
        if res is not None:
            path, total = validate_path(ctx, "bfs", g, res, L, idx, nxt, cost)
            ctx.check(len(path) - 1 == best, "C05.bfs.minimum_steps", lambda: f"path {path}, optimum {best} steps")
    ctx.event("rep=" + g["rep"])
    multi = sum(1 for u in g["goals"] if u in dist) >= 1 and best not in (None, 0) and len(dist) >= 3
    ctx.nontrivial(multi or (best is None and len(dist) >= 2))


@st.composite
def reuse_cases(draw, tier="quick"):
    return {"a": draw(graph_specs(tier)), "b": draw(graph_specs(tier)), "algo": draw(st.sampled_from(["astar", "bfs"])),
            "seed": draw(st.integers(0, 10 ** 6)), "tie": draw(st.sampled_from(["lifo", "fifo", "random"]))}


def prop_reuse(case, ctx):
    from msdm.algorithms.search import AStarSearch, BreadthFirstSearch
    from vpm.checks.reuse import check_reuse
    pa = build_problem(case["a"])[0]
    pb = build_problem(case["b"])[0]
    if case["algo"] == "astar":
        make = lambda: AStarSearch(tie_breaking_strategy=case["tie"], randomize_action_order=True, seed=case["seed"])
    else:
        make = lambda: BreadthFirstSearch(randomize_action_order=True, seed=case["seed"])
    summ = lambda r, m: None if r is None else {"path": list(r.path), "value": getattr(r, "path_value", None)}
    check_reuse(ctx, "C05.reuse", make, lambda pl, m: pl.plan_on(m), summ, pa, pb)
    # the public conversion entry point used explicitly, for both problems first: planning on the *earlier* converted problem
    # (while a later conversion exists) must give what planning on the original gives
    from msdm.core.mdp.deterministic_shortest_path import DeterministicShortestPathProblem
    from vpm.checks.c13_scenarios import digest
    da = ctx.call("C05.reuse.from_mdp_raises", DeterministicShortestPathProblem.from_mdp, pa)
    db = ctx.call("C05.reuse.from_mdp_raises", DeterministicShortestPathProblem.from_mdp, pb)
    for orig, conv, which in ((pa, da, "first"), (pb, db, "second")):
        r1 = ctx.call("C05.reuse.plan_on_converted_raises", make().plan_on, conv)
        r0 = ctx.call("C05.reuse.fresh_call_raises", make().plan_on, orig)
        ctx.check(digest(summ(r1, conv)) == digest(summ(r0, orig)), "C05.reuse.converted_problem_changed_by_a_later_conversion",
                  lambda: f"{which} problem: planning on its from_mdp() conversion {summ(r1, conv)} vs on the problem itself {summ(r0, orig)}")
    ctx.nontrivial(case["a"] != case["b"])


def _expand_bulk(params):
    """a large random multigraph expanded deterministically from a drawn integer (the expanded graph, not the
    integer, is the case that is stored and replayed)"""
    import random as _random
    n, deg, maxc, fwd, seed = params
    rng = _random.Random(seed)
    zero_p = [0.0, 0.15, 0.35][seed % 3 if seed % 7 else 0]      # share of free (zero-cost) moves
    edges = []
    for u in range(n):
        row = []
        for a in range(rng.randint(1, deg)):
            v = min(n - 1, u + rng.randint(1, fwd)) if rng.random() < 0.5 else rng.randrange(n)
            row.append([a, v, 0 if rng.random() < zero_p else rng.randint(0, maxc)])
        edges.append(row)
    hk = ["zero", "0.5", "exact", "relaxed", "relaxed"][seed % 5]
    if hk == "relaxed":
        hk = "relaxed:" + ",".join(str(u) for u in sorted(rng.sample(range(n), rng.randint(1, max(1, n // 4)))))
    return {"graph": {"n": n, "labels": list(range(n)), "edges": edges, "goals": [n - 1], "start": 0, "rep": "next_state",
                      "init_rep": "initial_state"},
            "heuristic": hk, "tie_breaking": ["lifo", "fifo", "random"][seed % 3],
            "randomize_action_order": bool(seed % 2), "seed": seed if (seed % 3 == 2 or seed % 2) else None}


def bulk_cases(tier):
    """many large graphs with wide frontiers: rare queue-revision / heap-order shapes need volume, not shrinking"""
    return st.tuples(st.integers(24, 40), st.integers(4, 8), st.sampled_from([20, 50, 100]), st.integers(3, 40),
                     st.integers(0, 2 ** 40)).map(_expand_bulk)


def all_small_graphs(tier):
    """every directed multigraph on n nodes (n <= 2 quick, n <= 3 thorough) in which each node has, for each of two
    actions, either no edge or an edge (target, cost in {0, 1}); every goal subset; start node 0 (by symmetry)"""
    import itertools
    for n in ([1, 2, 3] if tier == "thorough" else [1, 2]):
        per_action = [None] + [(v, c) for v in range(n) for c in (0, 1)]
        node_opts = list(itertools.product(per_action, repeat=2))
        for nodes in itertools.product(node_opts, repeat=n):
            edges = [[[a, e[0], e[1]] for a, e in enumerate(opt) if e is not None] for opt in nodes]
            for gmask in range(2 ** n):
                yield {"graph": {"n": n, "labels": list(range(n)), "edges": edges,
                                 "goals": [u for u in range(n) if gmask >> u & 1], "start": 0,
                                 "rep": ["next_state", "det", "dict1", "unif1", "dsp"][(gmask + n) % 5],
                                 "init_rep": ["initial_state", "det", "dict1", "unif1"][gmask % 4]},
                       "heuristic": "zero", "tie_breaking": ["lifo", "fifo"][gmask % 2], "randomize_action_order": False,
                       "seed": None}


def prop_both(case, ctx):
    prop_astar(case, ctx)
    prop_bfs(case, ctx)


PROPS = [
    ExhaustiveProp("small_graphs_exhaustive", all_small_graphs, prop_both,
                   doc="ALL multigraphs with <=2 nodes (quick) / <=3 nodes (thorough), 2 actions, costs {0,1}, every goal subset: A* and BFS"),
    Prop("reuse", lambda tier: reuse_cases(tier), prop_reuse, quick=600, thorough=36000,
         doc="a search object reused on a second problem gives the same result as a fresh one"),
    Prop("astar_bulk", bulk_cases, prop_astar, quick=10000, thorough=600000,
         doc="A* on many large random graphs (24-40 nodes, out-degree up to 8, costs up to 100) vs Dijkstra"),
    Prop("astar", lambda tier: astar_cases(tier), prop_astar, quick=4000, thorough=300000,
         doc="A* path validity and optimal cost vs Dijkstra"),
    Prop("bfs", lambda tier: bfs_cases(tier), prop_bfs, quick=3000, thorough=180000,
         doc="BFS path validity and minimum steps"),
]
