"""C16 — multichain policy iteration, when it reports convergence, is gain/value optimal."""
import math
import numpy as np
from hypothesis import strategies as st

from vpm.core import Prop, HarnessError
from vpm.gen.mdp import mdp_specs
from vpm.build import build_mdp
from vpm.ref.mdp import RefMDP, gain_of_policy, optimal_gain_enumeration, optimal_gain_lp

PROPERTY_ID = "C16"
RULE = ("MDP specs without action-less states: discounted (rewards of either sign) and undiscounted 'average' "
        "(arbitrary signs, unichain and multichain, with and without absorbing states; generated with and without the "
        "connecting chain so that several closed classes occur). Oracle: discounted V* by policy enumeration; optimal "
        "gain by the multichain LP (HiGHS) AND by deterministic-policy enumeration with Cesaro limits, which must "
        "agree with each other. Only runs that report convergence are asserted. Non-trivial: undiscounted with >=2 "
        "closed classes under some deterministic policy, or a state whose gain / value depends on the action; "
        "distinct by spec hash."
        " Also: sweep budgets of 1-5, MDPs of 8-30 states (LP gain reference), rewards that differ by a hair at magnitude 1000 (with MPI's own tie band as tolerance).")
ASSUMPTIONS = ["scipy.optimize.linprog (HiGHS) and numpy.linalg on <=6 states; the two gain references must agree to 1e-7 or the run is a harness error",
               "non-converged runs are counted, not asserted (the statement is conditional)"]
TOL = 2e-6  # gains come from a Gram-matrix solve: observed noise up to 3e-7 on exact-integer problems


def cases(tier):
    # mostly a generous sweep budget; sometimes 1-5 sweeps: what is claimed "when it reports convergence" must also hold
    # where convergence should not be reported
    return st.tuples(_mdp_cases(tier), st.sampled_from([300, 300, 300, 300, 1, 2, 3, 5])).map(lambda t: dict(t[0], mpi_budget=t[1]))


def _mdp_cases(tier):
    big = tier == "thorough"
    mx = 6 if big else 5
    return st.one_of(
        mdp_specs("discounted", min_states=2, max_states=mx),
        mdp_specs("average", min_states=2, max_states=mx),
        mdp_specs("average", min_states=2, max_states=mx, connect=False),
        mdp_specs("average", min_states=3, max_states=mx, connect=False, max_out=2,
                  absorbing_kinds=("n", "n", "n", "n", "n", "n", "n", "abs")),
        # several closed classes with different gains plus large one-off rewards on the way into them
        mdp_specs("average", min_states=4, max_states=mx + 1, connect=False, max_out=2, max_actions=3, reward_lo=-2, reward_hi=9,
                  absorbing_kinds=("n", "n", "n", "n", "n", "abs")),
        mdp_specs("average", min_states=4, max_states=mx + 1, connect=False, max_out=1, max_actions=3, reward_lo=-2, reward_hi=9,
                  absorbing_kinds=("n", "n", "n", "n", "n", "abs")),
        # large one-off rewards that differ by a hair (1000 vs 1000.005): differences that fall inside a relative tie
        # tolerance in one place and outside an absolute one in another
        mdp_specs("average", min_states=3, max_states=mx, connect=False, max_out=1, max_actions=3,
                  reward_values=[0, 0, 1000, 1000.005, 999.995, 3000, 1, -1000], absorbing_kinds=("n", "n", "n", "n", "abs")),
    )


def large_cases(tier):
    from vpm.gen.mdp import large_mdp_specs
    return st.one_of(large_mdp_specs("average", min_states=8, max_states=24, max_actions=2, max_out=2),
                     large_mdp_specs("discounted", min_states=8, max_states=30, max_actions=3, max_out=3, gammas=[0.5, 0.9, 0.95]))


def prop_mpi(spec, ctx):
    from msdm.algorithms.multichainpolicyiteration import MultichainPolicyIteration
    mdp, view = build_mdp(spec)
    ref = RefMDP(spec)
    n, m = ref.n, ref.m
    budget = spec.get("mpi_budget", 300)
    if budget < 300:
        ctx.event("tiny_sweep_budget")
        # the statement speaks about runs that report convergence; a run whose budget runs out may - and on this code
        # base sometimes does - end in an exception instead of converged=False (DESIGN.md 5.4): counted, not asserted
        try:
            res = MultichainPolicyIteration(max_iterations=budget).plan_on(mdp)
        except Exception as e:
            ctx.event("tiny_sweep_budget_run_raised_" + type(e).__name__)
            return
    else:
        res = ctx.call("C16.plan_raises", MultichainPolicyIteration(max_iterations=budget).plan_on, mdp)
    states = [view.sidx[s] for s in mdp.state_list]
    # reported expectations
    ig = sum(float(res.state_gain[view.S[s]]) * p for s, p in view.p0 if p > 0)
    iv = sum(float(res.state_value[view.S[s]]) * p for s, p in view.p0 if p > 0)
    ctx.check(abs(float(res.initial_gain) - ig) <= 1e-9 * (1 + abs(ig)), "C16.initial_gain_expectation")
    ctx.check(abs(float(res.initial_value) - iv) <= 1e-9 * (1 + abs(iv)), "C16.initial_value_expectation")
    if not res.converged:
        ctx.event("not_converged")
        return
    # policy rows
    pi = np.zeros((n, m))
    for s in range(n):
        pi[s, int(np.argmax(ref.avail[s]))] = 1.0
    for s in states:
        row = {view.aidx[a]: float(p) for a, p in res.policy.action_dist(view.S[s]).items()}
        ctx.check(all(math.isfinite(p) and p >= 0 for p in row.values()) and abs(sum(row.values()) - 1) <= 1e-9,
                  "C16.policy_row_is_distribution", lambda: f"state {s}: {row}")
        if ref.absorbing[s]:
            continue
        bad = [a for a, p in row.items() if p > 0 and not ref.avail[s, a]]
        ctx.check(not bad, "C16.policy_unavailable_action", lambda: f"state {s}: {row} avail {ref.avail[s].tolist()}")
        if not bad and abs(sum(row.values()) - 1) <= 1e-9:
            pi[s] = 0
            for a, p in row.items():
                pi[s, a] = p
    if ref.gamma < 1.0:
        opt = ref.optimal()
        scale = 1 + float(np.max(np.abs(opt["V"])))
        # the improvement steps keep the current action when another is better by less than np.isclose's tolerance
        # (rtol 1e-5, atol 1e-8): the value may fall short of the optimum by that band times the horizon
        band = (1e-5 * float(np.max(np.abs(opt["V"]))) + 1e-8) / (1 - ref.gamma)
        dtol = max(TOL * scale, band)
        for s in states:
            v = float(res.state_value[view.S[s]])
            ctx.check(abs(v - opt["V"][s]) <= dtol, "C16.discounted_value_optimal",
                      lambda: f"state {s}: {v} vs V* {opt['V'][s]} (tolerance {dtol})")
        ev = ref.evaluate(pi)
        for s in states:
            ctx.check(abs(ev["V"][s] - opt["V"][s]) <= dtol, "C16.discounted_policy_attains_optimum",
                      lambda: f"state {s}: V_pi {ev['V'][s]} vs V* {opt['V'][s]}")
        differs = any(abs(opt["Q"][s, a] - opt["V"][s]) > 1e-6 for s in states if not ref.absorbing[s]
                      for a in range(m) if ref.avail[s, a])
        ctx.event("discounted")
        ctx.nontrivial(differs and len(states) >= 2)
        return
    g_lp = optimal_gain_lp(ref)
    if spec.get("large"):
        g_enum, max_classes = g_lp, 2       # (tens of states: the linear program alone; no enumeration cross-check)
    else:
        g_enum, max_classes = optimal_gain_enumeration(ref)
    scale = 1 + float(np.max(np.abs(g_enum)))
    if np.max(np.abs(g_enum - g_lp)) > 1e-6 * scale:
        raise HarnessError(f"gain references disagree: enumeration {g_enum} LP {g_lp}")
    # (as in the discounted branch: the improvement steps keep the current action when another is better by less than
    # np.isclose's tolerance - rtol 1e-5, atol 1e-8 - so the gain may fall short of the optimum by that band)
    # The band applies to the bias step too, whose quantities are of the size of accumulated rewards (<= (n+1) * |r|max):
    # a one-off reward difference inside that band can cost its share of the gain.
    gtol = max(TOL * scale, 1e-5 * (n + 1) * ref.rmax_abs() + 1e-8)
    for s in states:
        g = float(res.state_gain[view.S[s]])
        ctx.check(abs(g - g_enum[s]) <= gtol, "C16.gain_optimal", lambda: f"state {s}: gain {g} optimal {g_enum[s]}")
    g_pi, _ = gain_of_policy(ref, pi)
    for s in states:
        ctx.check(abs(g_pi[s] - g_enum[s]) <= gtol, "C16.policy_attains_optimal_gain",
                  lambda: f"state {s}: gain of returned policy {g_pi[s]} optimal {g_enum[s]}")
    if max_classes >= 2:
        ctx.event("multichain")
    else:
        ctx.event("unichain")
    if ref.absorbing.any():
        ctx.event("has_absorbing")
    # a transient state whose gain depends on the action
    dep = False
    for s in states:
        if ref.absorbing[s]:
            continue
        vals = [float(ref.T[s, a] @ g_enum) for a in range(m) if ref.avail[s, a]]
        if max(vals) - min(vals) > 1e-6:
            dep = True
    ctx.nontrivial(max_classes >= 2 or dep)


@st.composite
def reuse_cases(draw, tier="quick"):
    return {"a": draw(cases(tier)), "b": draw(cases(tier))}


def prop_reuse(case, ctx):
    from msdm.algorithms.multichainpolicyiteration import MultichainPolicyIteration
    from vpm.checks.reuse import check_reuse, policy_table
    ma, _ = build_mdp(case["a"])
    mb, _ = build_mdp(case["b"])
    check_reuse(ctx, "C16.reuse", lambda: MultichainPolicyIteration(max_iterations=300), lambda pl, m: pl.plan_on(m),
                lambda r, m: {"gain": dict(r.state_gain.items()), "V": dict(r.state_value.items()), "conv": bool(r.converged),
                              "pi": policy_table(r.policy, list(m.state_list))}, ma, mb)
    ctx.nontrivial(case["a"] != case["b"])


PROPS = [Prop("reuse", lambda tier: reuse_cases(tier), prop_reuse, quick=200, thorough=12000,
              doc="a MultichainPolicyIteration object reused on a second MDP gives the same result as a fresh one"),
         Prop("mpi_large", large_cases, prop_mpi, quick=100, thorough=6000,
              doc="the same on MDPs with 8-30 states (gain reference: the multichain linear program)"),
         Prop("mpi", cases, prop_mpi, quick=5000, thorough=180000,
              doc="MultichainPolicyIteration vs discounted V* / optimal gain (LP and enumeration)")]
