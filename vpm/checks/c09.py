"""C09 — finite-state-controller values equal the return of executing the controller."""
import itertools
import numpy as np
from hypothesis import strategies as st

from vpm.core import Prop, HarnessError
from vpm.gen.pomdp import pomdp_specs
from vpm.build import build_pomdp
from vpm.ref.pomdp import RefPOMDPArrays, fsc_value_linear, fsc_value_iterative, fsc_history_action_prob

PROPERTY_ID = "C09"
RULE = ("Discounted POMDP specs with and without absorbing states (absorbing states carry non-zero rewards / "
        "transitions as HeavenOrHell's do) x stochastic controllers (1-3 nodes, integer-weight row-stochastic action "
        "and node-transition strategies incl. zeros, non-degenerate initial node distributions); ALL action/"
        "observation histories up to length 3 are enumerated per case; learners: seeds (incl. 0), 1-3 initial nodes, "
        "1-5 BPI iterations / 1-30 gradient steps. Oracle: episodic cross-product evaluation by linear solve AND by "
        "iterating the evaluation operator (must agree), hidden-node forward algorithm for history probabilities. "
        "Non-trivial: >=2 nodes, some action row with two positive entries and some history on which executed and "
        "defined probabilities are both in (0,1); distinct by spec hash."
        ' Also: 3-D node strategies, gapped-integer labels, small mostly unobservable POMDPs in which two different actions coincide in one state.')
ASSUMPTIONS = ["BPI's per-iteration monotonicity is observed as a prefix relation between runs with iterations=k and "
               "k+1 under one seed (no hook needed)", "reference evaluation trusted only when its two routes agree to 1e-9"]
TOL = 1e-8


@st.composite
def fsc_specs(draw, m, k, max_nodes=3):
    N = draw(st.integers(1, max_nodes))

    def row(sz, lo=0):
        w = [draw(st.integers(lo, 3)) for _ in range(sz)]
        if not any(w):
            w[draw(st.integers(0, sz - 1))] = 1
        return w
    return {"act": [row(m) for _ in range(N)],
            "obs": [[[row(N) for _ in range(k)] for _ in range(m)] for _ in range(N)],
            "init": row(N)}


@st.composite
def eval_cases(draw, tier="quick"):
    spec = draw(pomdp_specs(max_states=4, max_actions=3 if tier == "thorough" else 2, max_obs=3 if tier == "thorough" else 2,
                            absorbing_kinds=("n", "n", "n", "n", "abs", "imp")))
    f = draw(fsc_specs(spec["m"], spec["k"]))
    if draw(st.integers(0, 3)) == 0:
        # node strategy that does not depend on the action: may be passed as a 3-D array p(n'|n,o)
        f["obs"] = [[[f["obs"][n][0][o] for o in range(spec["k"])] for _a in range(spec["m"])] for n in range(len(f["act"]))]
        f["three_d"] = True
    return {"pomdp": spec, "fsc": f}


def norm(x):
    x = np.array(x, dtype=float)
    return x / x.sum(-1, keepdims=True)


def has_explicit_absorbing(case, msg=None):
    spec = case["pomdp"]
    from vpm.ref.mdp import closure
    return any(spec["absorbing"][s] for s in closure(spec))


KNOWN_PREDICATES = {"pomdp_has_absorbing_state": has_explicit_absorbing}


def controller_arrays(case, pomdp, view):
    """strategies re-indexed to msdm's action / observation order"""
    f = case["fsc"]
    al = [view.aidx[a] for a in pomdp.action_list]
    ol = [view.oidx[o] for o in pomdp.observation_list]
    act = norm(f["act"])
    obs = norm(f["obs"])
    init = norm([f["init"]])[0]
    return act, obs, init, act[:, al], obs[:, al][:, :, ol], al, ol


def reference_value(arr, act, obs):
    v1 = fsc_value_linear(arr, act, obs)
    v2 = fsc_value_iterative(arr, act, obs)
    if np.max(np.abs(v1 - v2)) > 1e-9 * (1 + np.max(np.abs(v1))):
        raise HarnessError(f"FSC reference routes disagree: {v1} vs {v2}")
    return v1


def prop_evaluator(case, ctx):
    import torch
    from msdm.algorithms.fscgradientascent import stochastic_fsc_policy_evaluation_exact
    spec = case["pomdp"]
    pomdp, view = build_pomdp(spec)
    arr = RefPOMDPArrays(spec)
    sl = [view.sidx[s] for s in pomdp.state_list]
    if len(pomdp.observation_list) != arr.k:
        ctx.event("unused_observation_dropped")
    act, obs, init, act_m, obs_m, al, ol = controller_arrays(case, pomdp, view)
    # observations that never occur are not in msdm's list: drop them from the reference too (they carry no mass)
    obs_arg = obs_m
    if case["fsc"].get("three_d"):
        obs_arg = obs_m[:, 0, :, :]  # identical for every action by construction
        ctx.event("three_d_node_strategy")
    res = ctx.call("C09.evaluator.raises", stochastic_fsc_policy_evaluation_exact, pomdp, torch.tensor(act_m),
                   torch.tensor(obs_arg), fsc_initial_state=torch.tensor(init))
    V = res.state_controller_value.numpy()
    ref = reference_value(arr, act, obs)
    scale = 1 + float(np.max(np.abs(ref)))
    N = act.shape[0]
    for n in range(N):
        for j, s in enumerate(sl):
            ctx.check(abs(V[n, j] - ref[n, s]) <= TOL * scale, "C09.evaluator.state_controller_value",
                      lambda: f"node {n} state {s} (absorbing={bool(arr.absorbing[s])}): msdm {V[n, j]} episodic reference {ref[n, s]}")
    sv = res.state_value.numpy()
    ev = float(res.expected_value)
    want_sv = init @ V
    ctx.check(np.allclose(sv, want_sv, atol=1e-10 * scale), "C09.evaluator.state_value_is_node_mixture")
    want_ev = float(sum(want_sv[j] * arr.p0[s] for j, s in enumerate(sl)))
    ctx.check(abs(ev - want_ev) <= 1e-10 * scale, "C09.evaluator.expected_value_is_initial_mixture")
    if arr.absorbing[sl].any():
        ctx.event("has_absorbing_state")
    ctx.nontrivial(N >= 2 and bool(((act > 0).sum(1) >= 2).any()))


def prop_execution(case, ctx):
    from msdm.core.pomdp.finitestatecontroller import StochasticFiniteStateController
    spec = case["pomdp"]
    pomdp, view = build_pomdp(spec)
    act, obs, init, act_m, obs_m, al, ol = controller_arrays(case, pomdp, view)
    fsc = StochasticFiniteStateController(pomdp, act_m, obs_m, init)
    ag0 = fsc.initial_agentstate()
    ctx.check(np.allclose(np.asarray(ag0), init), "C09.execution.initial_agentstate_is_initial_distribution")
    m = len(al)
    k = len(ol)
    A, OL = list(pomdp.action_list), list(pomdp.observation_list)
    act_r, obs_r = act_m, obs_m  # reference in msdm's index order
    interesting = False
    L = 3
    for length in range(1, L + 1):
        for hist in itertools.product(itertools.product(range(m), range(k)), repeat=length):
            p_exec = 1.0
            ag = ag0
            for a, o in hist:
                pa = float(fsc.action_dist(ag).prob(A[a]))
                p_exec *= pa
                if p_exec == 0:
                    break
                ag = fsc.next_agentstate(ag, A[a], OL[o])
            p_def = fsc_history_action_prob(act_r, obs_r, init, list(hist))
            ctx.check(abs(p_exec - p_def) <= 1e-9, "C09.execution.history_probability",
                      lambda: f"history {hist}: executing the controller object gives {p_exec}, the controller defines {p_def}")
            if 0 < p_def < 1 and length >= 2:
                interesting = True
    ctx.nontrivial(act.shape[0] >= 2 and bool(((act > 0).sum(1) >= 2).any()) and interesting)


# ------------------------------------------------------------------ learners
@st.composite
def learner_cases(draw, tier="quick"):
    spec = draw(pomdp_specs(max_states=3, max_actions=2, max_obs=2, absorbing_kinds=("n", "n", "n", "n", "abs"),
                            zero_obs=draw(st.booleans())))
    iterations = draw(st.integers(1, 4))
    if draw(st.integers(0, 1)) == 0:
        # (own small POMDPs for this family: 2-3 states, 2-3 actions, mostly unobservable, no absorbing states)
        spec = draw(pomdp_specs(min_states=2, max_states=3, max_actions=3, max_obs=draw(st.sampled_from([1, 1, 2])),
                                absorbing_kinds=("n",), zero_obs=False, gammas=[0.5, 0.75, 0.9]))
    if spec["m"] >= 2 and draw(st.integers(0, 2)) <= 1 and not any(spec["absorbing"]):
        # two actions that coincide in one state (same successors, rewards and observations there) and differ elsewhere:
        # exact ties between *different* actions at beliefs concentrated on that state
        import copy
        s0 = draw(st.integers(0, spec["n"] - 1))
        rows = dict((a, outs) for a, outs in spec["trans"][s0])
        acts = sorted(rows)
        if len(acts) >= 2 and not spec["absorbing"][s0]:
            rows[acts[1]] = copy.deepcopy(rows[acts[0]])
            spec["trans"][s0] = [[a, rows[a]] for a in acts]
            spec["obs"][acts[1]] = copy.deepcopy(spec["obs"][acts[0]])
            spec["p0"] = [[s0, draw(st.sampled_from([1, 2, 3]))]] + ([[(s0 + 1) % spec["n"], 1]] if spec["n"] > 1 and draw(st.booleans()) else [])
            # the last action brings every state back to s0 for sure (beliefs concentrated on s0 keep coming up)
            for s_ in range(spec["n"]):
                r_ = dict((a, outs) for a, outs in spec["trans"][s_])
                if acts[-1] in r_ and acts[-1] not in acts[:2]:
                    r_[acts[-1]] = [[s0, 1, draw(st.integers(-2, 2))]]
                    spec["trans"][s_] = [[a, r_[a]] for a in sorted(r_)]
            iterations = draw(st.integers(1, 8))
            from vpm.gen.mdp import normalise_absorbing_successors
            normalise_absorbing_successors(spec)      # (the initial support changed: keep absorbing states' successors inside)
    return {"pomdp": spec, "nodes": draw(st.integers(1, 3)), "seed": draw(st.sampled_from([0, 1, 7, 12345, 2 ** 30 - 1])),
            "iterations": iterations, "ga_iterations": draw(st.integers(1, 30))}


def check_controller(ctx, tag, policy, arr, pomdp, view, reported_value):
    act = np.asarray(policy.action_strategy.detach().numpy() if hasattr(policy.action_strategy, "detach") else policy.action_strategy, dtype=float)
    obs = np.asarray(policy.observation_strategy.detach().numpy() if hasattr(policy.observation_strategy, "detach") else policy.observation_strategy, dtype=float)
    init = np.asarray(policy.initial_state_dist.detach().numpy() if hasattr(policy.initial_state_dist, "detach") else policy.initial_state_dist, dtype=float)
    for name, x in (("action_strategy", act), ("observation_strategy", obs), ("initial_state_dist", init)):
        ctx.check(bool((x >= -1e-9).all()) and bool(np.allclose(x.sum(-1), 1, atol=1e-8)) and bool(np.isfinite(x).all()),
                  f"C09.{tag}.{name}_rows_are_distributions", lambda: f"{x}")
    # reference evaluation (indices: msdm order -> spec order)
    al = [view.aidx[a] for a in pomdp.action_list]
    ol = [view.oidx[o] for o in pomdp.observation_list]
    N = act.shape[0]
    act_s = np.zeros((N, arr.m))
    act_s[:, al] = act
    obs_s = np.zeros((N, arr.m, arr.k, N))
    obs_s[:] = 1.0 / N
    for i, a in enumerate(al):
        for j, o in enumerate(ol):
            obs_s[:, a, o, :] = obs[:, i, j, :]
    if not (np.allclose(act_s.sum(-1), 1, atol=1e-6) and np.allclose(obs_s.sum(-1), 1, atol=1e-6)):
        return None
    act_s = act_s / act_s.sum(-1, keepdims=True)
    obs_s = obs_s / obs_s.sum(-1, keepdims=True)
    V = reference_value(arr, act_s, obs_s)
    want = float((init / init.sum()) @ V @ arr.p0)
    scale = 1 + float(np.max(np.abs(V)))
    ctx.check(abs(float(reported_value) - want) <= 1e-6 * scale, f"C09.{tag}.reported_value_is_exact_evaluation",
              lambda: f"reported {float(reported_value)}, episodic evaluation of the returned controller {want}")
    return V


def prop_bpi(case, ctx):
    from msdm.algorithms.fscboundedpolicyiteration import FSCBoundedPolicyIteration
    spec = case["pomdp"]
    pomdp, view = build_pomdp(spec)
    arr = RefPOMDPArrays(spec)
    runs = []
    for it in (case["iterations"], case["iterations"] + 1):
        res = ctx.call("C09.bpi.raises", FSCBoundedPolicyIteration(controller_state_count=case["nodes"], iterations=it,
                                                                  seed=case["seed"]).train_on, pomdp)
        runs.append(res)
        check_controller(ctx, "bpi", res.policy, arr, pomdp, view, res.value)
    # never lowers the value of any node at any state from one iteration to the next (prefix relation)
    V1, V2 = np.asarray(runs[0].state_controller_value), np.asarray(runs[1].state_controller_value)
    n1 = V1.shape[0]
    ctx.check(V2.shape[0] >= n1, "C09.bpi.controller_shrank")
    if V2.shape[0] >= n1:
        scale = 1 + float(np.max(np.abs(V1)))
        ctx.check(bool((V2[:n1] >= V1 - 1e-7 * scale).all()), "C09.bpi.value_lowered_by_an_iteration",
                  lambda: f"after {case['iterations']} iterations {V1.tolist()}, after one more {V2[:n1].tolist()}")
    ctx.event("converged=" + str(bool(runs[0].converged)))
    ctx.nontrivial(not np.allclose(V1, V2[:n1]) or V2.shape[0] > n1)


def prop_ga(case, ctx):
    from msdm.algorithms.fscgradientascent import FSCGradientAscent
    spec = case["pomdp"]
    pomdp, view = build_pomdp(spec)
    arr = RefPOMDPArrays(spec)
    res = ctx.call("C09.ga.raises", FSCGradientAscent(controller_state_count=case["nodes"], iterations=case["ga_iterations"],
                                                      seed=case["seed"]).train_on, pomdp)
    check_controller(ctx, "ga", res.policy, arr, pomdp, view, float(res.value.expected_value))
    ctx.nontrivial(case["nodes"] >= 2)


@st.composite
def rollout_cases(draw, tier="quick"):
    """roll-outs of a generated stochastic controller (C14's trajectory validator, controller policies only)"""
    from vpm.checks import c14
    spec = draw(pomdp_specs(max_states=4, absorbing_kinds=("n", "n", "n", "abs", "abs")))
    f = draw(fsc_specs(spec["m"], spec["k"]))
    pol = {"kind": "fsc", "act": f["act"], "obs": f["obs"], "init": f["init"]}
    return {"pomdp": spec, "policy": pol, "start": draw(st.one_of(st.none(), st.integers(0, spec["n"] - 1))),
            "max_steps": draw(st.integers(0, 10)), "stream": draw(c14.STREAM), "seed": draw(st.integers(0, 10 ** 6))}


def prop_rollout(case, ctx):
    from vpm.checks import c14
    c14.prop_pomdp_rollout(case, ctx, pfx="C09.rollout")


PROPS = [
    Prop("evaluator", lambda tier: eval_cases(tier), prop_evaluator, quick=1500, thorough=90000,
         doc="stochastic_fsc_policy_evaluation_exact vs episodic cross-product evaluation (two reference routes)"),
    Prop("execution", lambda tier: eval_cases(tier), prop_execution, quick=500, thorough=24000,
         doc="executed vs defined probability of every action/observation history up to length 3"),
    Prop("rollout", lambda tier: rollout_cases(tier), prop_rollout, quick=1200, thorough=75000,
         doc="executing the controller (run_on): valid steps, episode ends on entering an absorbing state, agent-state updates"),
    Prop("bpi", lambda tier: learner_cases(tier), prop_bpi, quick=480, thorough=12000,
         doc="bounded policy iteration: valid controller, reported value, monotone across iterations (prefix runs)"),
    Prop("ga", lambda tier: learner_cases(tier), prop_ga, quick=150, thorough=9000,
         doc="gradient ascent: valid controller, reported value is the exact evaluation"),
]
