"""C14 — policy roll-outs are valid trajectories and Monte-Carlo evaluation averages them."""
import math
import random
import numpy as np
from hypothesis import strategies as st

from vpm.core import Prop
from vpm.gen.mdp import mdp_specs, policy_specs
from vpm.gen.pomdp import pomdp_specs
from vpm.build import build_mdp, build_tabular_policy, build_pomdp
from vpm.ref.mdp import RefMDP
from vpm.checks.c11 import OwnedRandom

PROPERTY_ID = "C14"
FUZZ = {"props": ["mdp_rollout", "evaluate"], "quick": [2, 800], "thorough": [8, 30000]}
RULE = ("MDP / POMDP specs (stochastic, absorbing states, zero-probability entries) x policy kind (functional, "
        "tabular; alpha-vector, QMDP-style and stochastic-controller for POMDPs) x start state given or sampled x "
        "step cap 0..12 x harness-owned random stream; reward sequences (ints, length 0..12) x discount in "
        "{0,0.0,.5,.9,1,1.0}; evaluation with 1..20 simulations. Oracle: step-by-step trajectory validator against "
        "the spec, the defining backward recursion, plain-loop averages over identically seeded roll-outs, and a "
        "chain walk for deterministic policy x deterministic MDP. Non-trivial: a trajectory with >=2 steps that hits "
        "the cap or ends in an absorbing state reached through a stochastic transition; distinct by spec hash."
        ' Also: 1000-2048 simulations, roll-outs of 2049 / 2600 steps, caps of 60-900.'
        " calc_returns on tuples and arrays of several dtypes, twice on the same object (caller's array unchanged). Reward sequences of 1025-4300 entries.")
ASSUMPTIONS = ["the evaluator's own convention is followed: the closing bare state of a roll-out counts as a visit with "
               "return-to-go 0", "the action_value column for the closing step's action None is not asserted"]

STREAM = st.lists(st.one_of(st.sampled_from([0.0, 1 - 2 ** -53, 0.5, 0.25, 0.75]),
                            st.floats(0, 1, exclude_max=True, allow_nan=False)), min_size=0, max_size=30)


@st.composite
def mdp_cases(draw, tier="quick"):
    spec = draw(mdp_specs("discounted", max_states=6 if tier == "thorough" else 5, allow_explicit=False,
                          absorbing_kinds=("n", "n", "n", "n", "abs", "abs", "imp")))
    return {"mdp": spec, "policy": draw(policy_specs(spec)), "kind": draw(st.sampled_from(["functional", "tabular"])),
            "start": draw(st.one_of(st.none(), st.integers(0, spec["n"] - 1))),
            "max_steps": draw(st.integers(0, 12)), "stream": draw(STREAM), "seed": draw(st.integers(0, 10 ** 6))}


def make_policy(case, mdp, view):
    from msdm.core.mdp import FunctionalPolicy
    from msdm.core.distributions import DictDistribution
    spec, pol = case["mdp"], case["policy"]
    if case["kind"] == "tabular":
        full = spec.copy()
        return build_tabular_policy(spec, pol, mdp, view), None
    def f(s):
        row = pol[view.sidx[s]]
        tot = sum(w for _, w in row)
        return DictDistribution({view.A[a]: w / tot for a, w in row})
    return FunctionalPolicy(f), None


def pol_prob(case, s, a):
    row = case["policy"][s]
    tot = sum(w for _, w in row)
    return dict((x, w / tot) for x, w in row).get(a, 0.0)


def validate_mdp_traj(ctx, case, res, ref, view, spec, start_given, max_steps, tag="mdp"):
    S, A = view.S, view.A
    steps = list(res.steps)
    ctx.check(len(steps) >= 1, f"C14.{tag}.empty_trajectory")
    last = steps[-1]
    ctx.check(set(last.keys()) == {"state"}, f"C14.{tag}.final_step_is_bare_state", lambda: f"{last}")
    body = steps[:-1]
    first_state = steps[0]["state"]
    if start_given is not None:
        ctx.check(first_state == S[start_given], f"C14.{tag}.starts_at_given_state", lambda: f"{first_state}")
    else:
        ctx.check(ref.p0[view.sidx[first_state]] > 0, f"C14.{tag}.starts_in_initial_support", lambda: f"{first_state}")
    stochastic_end = False
    for t, st_ in enumerate(body):
        s, a, ns, r = st_["state"], st_["action"], st_["next_state"], st_["reward"]
        i, j, k = view.sidx[s], view.aidx.get(a), view.sidx[ns]
        ctx.check(st_["timestep"] == t, f"C14.{tag}.timestep_is_index", lambda: f"{st_}")
        ctx.check(not spec["absorbing"][i], f"C14.{tag}.step_from_absorbing_state", lambda: f"step {t}: {s}")
        ctx.check(j is not None and pol_prob(case, i, j) > 0, f"C14.{tag}.action_has_zero_policy_probability",
                  lambda: f"step {t}: state {i} action {a}")
        if j is not None and ref.avail[i, j]:
            ctx.check(ref.W[i, j, k] > 0, f"C14.{tag}.successor_has_zero_probability", lambda: f"step {t}: {i},{j}->{k}")
            ctx.check(r == ref.R[i, j, k], f"C14.{tag}.reward_is_model_reward", lambda: f"step {t}: {r} vs {ref.R[i, j, k]}")
            if (ref.W[i, j] > 0).sum() > 1:
                stochastic_end = True
        nxt = steps[t + 1]["state"]
        ctx.check(nxt == ns, f"C14.{tag}.steps_chain", lambda: f"step {t}: next_state {ns} then state {nxt}")
    nsteps = len(body)
    end_abs = bool(spec["absorbing"][view.sidx[last["state"]]])
    ctx.check(nsteps <= max_steps, f"C14.{tag}.exceeds_step_cap", lambda: f"{nsteps} > {max_steps}")
    ctx.check(nsteps == max_steps or end_abs, f"C14.{tag}.stops_early_without_absorbing",
              lambda: f"{nsteps} steps, cap {max_steps}, last state {last['state']} not absorbing")
    # attribute views
    ctx.check(res.state == [s_["state"] for s_ in steps], f"C14.{tag}.state_view")
    ctx.check(res.reward == [s_.get("reward", 0) for s_ in steps], f"C14.{tag}.reward_view")
    return nsteps, end_abs, stochastic_end


def prop_mdp_rollout(case, ctx):
    spec = case["mdp"]
    mdp, view = build_mdp(spec)
    ref = RefMDP(spec)
    policy, _ = make_policy(case, mdp, view)
    start = case["start"]
    if start is not None and case["kind"] == "tabular" and view.S[start] not in mdp.state_list:
        start = None
    rng = OwnedRandom(case["stream"], tail_seed=case["seed"])
    kw = {} if start is None else {"initial_state": view.S[start]}
    res = ctx.call("C14.mdp.run_on_raises", lambda: policy.run_on(mdp, max_steps=case["max_steps"], rng=rng, **kw))
    nsteps, end_abs, stoch = validate_mdp_traj(ctx, case, res, ref, view, spec, start, case["max_steps"])
    ctx.event("kind=" + case["kind"])
    if nsteps == case["max_steps"] and not end_abs:
        ctx.event("hit_cap")
    if case["max_steps"] == 0:
        ctx.event("cap_zero")
    ctx.nontrivial(nsteps >= 2 and (nsteps == case["max_steps"] or (end_abs and stoch)))


# ------------------------------------------------------------------ POMDP roll-outs
@st.composite
def pomdp_cases(draw, tier="quick"):
    spec = draw(pomdp_specs(max_states=4, absorbing_kinds=("n", "n", "n", "abs")))
    n, m, k = spec["n"], spec["m"], spec["k"]
    kind = draw(st.sampled_from(["alpha", "qmdp", "fsc"]))
    pol = {"kind": kind}
    if kind == "alpha":
        nv = draw(st.integers(1, 3))
        pol["alpha"] = [[draw(st.integers(-3, 3)) for _ in range(n)] for _ in range(nv)]
    elif kind == "qmdp":
        pol["sa"] = [[draw(st.integers(-3, 3)) for _ in range(m)] for _ in range(n)]
    else:
        nn = draw(st.integers(1, 3))
        def row(sz):
            w = [draw(st.integers(0, 3)) for _ in range(sz)]
            if not any(w):
                w[0] = 1
            return w
        pol["act"] = [row(m) for _ in range(nn)]
        pol["obs"] = [[[row(nn) for _ in range(k)] for _ in range(m)] for _ in range(nn)]
        pol["init"] = row(nn)
    return {"pomdp": spec, "policy": pol, "start": draw(st.one_of(st.none(), st.integers(0, n - 1))),
            "max_steps": draw(st.integers(0, 10)), "stream": draw(STREAM), "seed": draw(st.integers(0, 10 ** 6))}


def norm_rows(x):
    x = np.array(x, dtype=float)
    return x / x.sum(-1, keepdims=True)


def make_pomdp_policy(case, pomdp, view):
    from msdm.core.pomdp.alphavectorpolicy import AlphaVectorPolicy
    from msdm.algorithms.qmdp import QMDPPolicy
    from msdm.core.pomdp.finitestatecontroller import StochasticFiniteStateController
    pol = case["policy"]
    sl, al, ol = list(pomdp.state_list), list(pomdp.action_list), list(pomdp.observation_list)
    if pol["kind"] == "alpha":
        vecs = np.array([[row[view.sidx[s]] for s in sl] for row in pol["alpha"]], dtype=float)
        return AlphaVectorPolicy(pomdp, vecs)
    if pol["kind"] == "qmdp":
        sa = {s: {a: pol["sa"][view.sidx[s]][view.aidx[a]] for a in al} for s in sl}
        return QMDPPolicy(pomdp, sa)
    act = norm_rows(pol["act"])[:, [view.aidx[a] for a in al]]
    obs_full = norm_rows(pol["obs"])  # node, action, obs, node'
    oi = [view.oidx[o] for o in ol]
    obs = obs_full[:, [view.aidx[a] for a in al]][:, :, oi]
    init = norm_rows([pol["init"]])[0]
    return StochasticFiniteStateController(pomdp, act, obs, init)


def same_agentstate(a, b):
    if isinstance(a, np.ndarray) or isinstance(b, np.ndarray):
        return np.array_equal(np.asarray(a), np.asarray(b))
    return a == b


def prop_pomdp_rollout(case, ctx, pfx="C14.pomdp"):
    from fractions import Fraction as F
    spec = case["pomdp"]
    pomdp, view = build_pomdp(spec)
    ref = RefMDP(spec)
    S, A, OL = view.S, view.A, view.OL
    sl = list(pomdp.state_list)
    policy = make_pomdp_policy(case, pomdp, view)
    start = case["start"]
    if start is not None and S[start] not in sl:
        start = None
    if start is not None and case["policy"]["kind"] in ("alpha", "qmdp") and not ref.p0[start] > 0:
        # a belief-tracking policy starts from the prior; a true start state the prior excludes makes the
        # observations impossible under the belief (empty posterior) - outside the domain of a roll-out
        start = None
        ctx.event("start_outside_prior_support_dropped")
    rng = OwnedRandom(case["stream"], tail_seed=case["seed"])
    kw = {} if start is None else {"initial_state": S[start]}
    traj = ctx.call(pfx + ".run_on_raises", lambda: policy.run_on(pomdp, max_steps=case["max_steps"], rng=rng, **kw))
    ctx.check(len(traj) >= 1, pfx + ".empty_trajectory")
    body, last = traj[:-1], traj[-1]
    ctx.check(last.action is None and last.nextstate is None and last.observation is None, pfx + ".final_step_is_bare",
              lambda: f"{last}")
    first = traj[0].state
    if start is not None:
        ctx.check(first == S[start], pfx + ".starts_at_given_state")
    else:
        ctx.check(ref.p0[view.sidx[first]] > 0, pfx + ".starts_in_initial_support", lambda: f"{first}")
    ctx.check(same_agentstate(traj[0].agentstate, policy.initial_agentstate()), pfx + ".first_agentstate_is_initial")
    stoch = False
    for t, st_ in enumerate(body):
        i, k = view.sidx[st_.state], view.sidx[st_.nextstate]
        j = view.aidx.get(st_.action)
        ctx.check(not spec["absorbing"][i], pfx + ".step_from_absorbing_state", lambda: f"step {t}")
        pa = policy.action_dist(st_.agentstate).prob(st_.action) if j is not None else 0
        ctx.check(j is not None and pa > 0, pfx + ".action_has_zero_policy_probability", lambda: f"step {t}: {st_.action}")
        if j is not None:
            ctx.check(ref.W[i, j, k] > 0, pfx + ".successor_has_zero_probability", lambda: f"step {t}")
            ctx.check(st_.reward == ref.R[i, j, k], pfx + ".reward_is_model_reward", lambda: f"step {t}")
            ow = dict((o, w) for o, w in spec["obs"][j][k])
            ctx.check(ow.get(view.oidx.get(st_.observation), 0) > 0, pfx + ".observation_has_zero_probability",
                      lambda: f"step {t}: obs {st_.observation} after a={j}, ns={k}")
            want = policy.next_agentstate(st_.agentstate, st_.action, st_.observation)
            ctx.check(same_agentstate(st_.nextagentstate, want), pfx + ".nextagentstate_is_policy_update", lambda: f"step {t}")
            if (ref.W[i, j] > 0).sum() > 1:
                stoch = True
        nxt = traj[t + 1]
        ctx.check(nxt.state == st_.nextstate, pfx + ".steps_chain", lambda: f"step {t}")
        ctx.check(same_agentstate(nxt.agentstate, st_.nextagentstate), pfx + ".agentstates_chain", lambda: f"step {t}")
    nsteps = len(body)
    end_abs = bool(spec["absorbing"][view.sidx[last.state]])
    ctx.check(nsteps <= case["max_steps"], pfx + ".exceeds_step_cap")
    ctx.check(nsteps == case["max_steps"] or end_abs, pfx + ".stops_early_without_absorbing",
              lambda: f"{nsteps} steps, cap {case['max_steps']}")
    ctx.event("kind=" + case["policy"]["kind"])
    ctx.nontrivial(nsteps >= 2 and (nsteps == case["max_steps"] or (end_abs and stoch)))


# ------------------------------------------------------------------ returns
@st.composite
def return_cases(draw, tier="quick"):
    if draw(st.integers(0, 249)) == 0:
        # long reward sequences (beyond any block / matrix size an implementation may work in), expanded from a drawn seed
        import random
        r = random.Random(draw(st.integers(0, 2 ** 32)))
        n = draw(st.sampled_from([1025, 2049, 4097, 4100, 4300]))
        return {"rewards": [r.randint(-5, 5) for _ in range(n)], "long": True,
                "gamma": draw(st.sampled_from([{"f": 0.5}, {"f": 0.9}, 1, {"f": 1.0}, {"f": 0.99}]))}
    return {"rewards": draw(st.lists(st.integers(-5, 5), min_size=0, max_size=12)),
            "gamma": draw(st.sampled_from([0, {"f": 0.0}, {"f": 0.5}, {"f": 0.9}, 1, {"f": 1.0}, {"f": 0.25}]))}


def prop_returns(case, ctx):
    from msdm.core.mdp.policy import Policy
    g = case["gamma"]
    gamma = float(g["f"]) if isinstance(g, dict) else g
    rs = case["rewards"]
    got = ctx.call("C14.returns.raises", Policy.calc_returns, rs, gamma)
    want = [0.0] * len(rs)
    acc = 0.0
    for t in range(len(rs) - 1, -1, -1):
        acc = rs[t] + gamma * acc
        want[t] = acc
    ctx.check(len(got) == len(rs), "C14.returns.length")
    if case.get("long"):
        # thousands of terms: the two summation orders differ by rounding; a misplaced reward differs by >= 1e-3 of a unit
        bad = [(t, float(x), y) for t, (x, y) in enumerate(zip(got, want)) if not abs(float(x) - y) <= 1e-9 * (1 + abs(y))]
        ctx.check(not bad, "C14.returns.backward_recursion",
                  lambda: f"{len(rs)} rewards, gamma {gamma!r}: first differences (t, got, want) {bad[:3]}")
        ctx.event("long_reward_sequence")
        ctx.nontrivial(True)
        return
    for t, (x, y) in enumerate(zip(got, want)):
        ctx.check(abs(float(x) - y) <= 1e-12 * (1 + abs(y)), "C14.returns.backward_recursion",
                  lambda: f"t={t}: {x} vs {y} (rewards {rs}, gamma {gamma!r})")
    # the reward sequence handed over as an array of any dtype (or a tuple): same answer, and the caller's array is left alone
    for mk in (tuple, lambda r: np.array(r, dtype=float), lambda r: np.array(r, dtype=np.float32), lambda r: np.array(r)):
        arg = mk(rs)
        if isinstance(arg, np.ndarray) and arg.dtype == np.float32 and not all(float(np.float32(r)) == float(r) for r in rs):
            continue
        before = np.array(arg, copy=True) if isinstance(arg, np.ndarray) else arg
        for rep in range(2):        # twice on the same object
            got2 = ctx.call("C14.returns.raises", Policy.calc_returns, arg, gamma)
            ok = len(got2) == len(rs) and all(abs(float(x) - y) <= 1e-6 * (1 + abs(y)) for x, y in zip(got2, want))
            ctx.check(ok, "C14.returns.backward_recursion",
                      lambda: f"rewards passed as {type(arg).__name__}{getattr(arg, 'dtype', '')} (call {rep + 1}): {list(got2)} vs {want}")
        if isinstance(arg, np.ndarray):
            ctx.check(bool(np.array_equal(arg, before)), "C14.returns.caller_array_modified", lambda: f"{before} became {arg}")
    ctx.event("gamma_type=" + type(gamma).__name__)
    ctx.nontrivial(len(rs) >= 2 and any(rs))


# ------------------------------------------------------------------ Monte-Carlo evaluation
@st.composite
def eval_cases(draw, tier="quick"):
    det = draw(st.booleans())
    spec = draw(mdp_specs("discounted", max_states=5, allow_explicit=False, max_out=1 if det else 3,
                          zero_weights=not det, multi_p0=not det, absorbing_kinds=("n", "n", "n", "n", "abs")))
    kinds = ("deterministic",) if det else ("stochastic", "deterministic", "sixths")
    n_sim = draw(st.integers(1, 20))
    cap = draw(st.one_of(st.integers(0, 12), st.integers(0, 12), st.sampled_from([60, 400, 900])))
    if draw(st.integers(0, 79)) == 0:
        # very long roll-outs (beyond any block size an implementation may process returns in), few of them
        n_sim, cap = draw(st.integers(1, 2)), draw(st.sampled_from([2049, 2600]))
    elif draw(st.integers(0, 39)) == 0:
        # many simulations (beyond any batch size an implementation may use internally), short roll-outs
        n_sim, cap = draw(st.sampled_from([1000, 1001, 1500, 2048])), draw(st.integers(1, 5))
    return {"mdp": spec, "policy": draw(policy_specs(spec, kinds=kinds)), "kind": draw(st.sampled_from(["functional", "tabular"])),
            "n": n_sim, "seed": draw(st.integers(0, 10 ** 6)),
            # mostly short caps; sometimes caps far beyond any "effective horizon" of the discount
            "max_steps": cap,
            "deterministic": det}


def prop_evaluate(case, ctx):
    from msdm.core.mdp.policy import Policy
    spec = case["mdp"]
    mdp, view = build_mdp(spec)
    ref = RefMDP(spec)
    policy, _ = make_policy(case, mdp, view)
    n, cap, gamma = case["n"], case["max_steps"], ref.gamma
    if cap > 12:
        n = min(n, 3)
    res = ctx.call("C14.evaluate.raises", lambda: Policy.evaluate_on(policy, mdp, n_simulations=n, max_steps=cap,
                                                                       rng=random.Random(case["seed"])))
    rng2 = random.Random(case["seed"])
    sims = [policy.run_on(mdp, rng=rng2, max_steps=cap) for _ in range(n)]
    init, sv, av, visits = [], {}, {}, {}
    for sim in sims:
        steps = list(sim.steps)
        rews = [s_.get("reward", 0) for s_ in steps]
        rets = [0.0] * len(rews)
        acc = 0.0
        for t in range(len(rews) - 1, -1, -1):
            acc = rews[t] + gamma * acc
            rets[t] = acc
        init.append(rets[0])
        for s_, ret in zip(steps, rets):
            sv.setdefault(s_["state"], []).append(ret)
            visits[s_["state"]] = visits.get(s_["state"], 0) + 1
            if "action" in s_:
                av.setdefault((s_["state"], s_["action"]), []).append(ret)
    tol = lambda y: 1e-12 * (1 + abs(y))
    want_iv = sum(init) / n
    ctx.check(abs(float(res.initial_value) - want_iv) <= tol(want_iv), "C14.evaluate.initial_value_is_mean_return",
              lambda: f"{res.initial_value} vs {want_iv}")
    ctx.check(res.n_simulations == n, "C14.evaluate.n_simulations")
    ctx.check(set(res.state_value.keys()) == set(sv), "C14.evaluate.state_value_keys")
    for s, lst in sv.items():
        y = sum(lst) / len(lst)
        ctx.check(abs(float(res.state_value[s]) - y) <= tol(y), "C14.evaluate.state_value_is_mean_return_to_go", lambda: f"{s}")
        f = visits[s] / n
        ctx.check(abs(float(res.state_occupancy[s]) - f) <= tol(f), "C14.evaluate.visit_frequency", lambda: f"{s}: {res.state_occupancy[s]} vs {f}")
    for (s, a), lst in av.items():
        y = sum(lst) / len(lst)
        ctx.check(abs(float(res.action_value[s][a]) - y) <= tol(y), "C14.evaluate.action_value_is_mean_return", lambda: f"{s},{a}")
    if case["deterministic"]:
        # walk the chain: deterministic policy on a deterministic MDP from the single start state
        s = [x for x, w in spec["p0"] if w > 0][0]
        total, disc, t = 0.0, 1.0, 0
        while t < cap and not spec["absorbing"][s]:
            a = [x for x, w in case["policy"][s] if w > 0][0]
            outs = [(ns, r) for ns, w, r in dict((x, o) for x, o in spec["trans"][s])[a] if w > 0]
            ns, r = outs[0]
            total += disc * r
            disc *= gamma
            s, t = ns, t + 1
        ctx.check(abs(float(res.initial_value) - total) <= 1e-9 * (1 + abs(total)), "C14.evaluate.deterministic_equals_truncated_exact",
                  lambda: f"{res.initial_value} vs chain walk {total}")
        ctx.event("deterministic")
    ctx.nontrivial(n >= 2 and any(len(list(sim.steps)) >= 3 for sim in sims))


PROPS = [
    Prop("mdp_rollout", lambda tier: mdp_cases(tier), prop_mdp_rollout, quick=3000, thorough=180000,
         doc="Policy.run_on trajectories validated step by step (harness-owned random stream)"),
    Prop("pomdp_rollout", lambda tier: pomdp_cases(tier), prop_pomdp_rollout, quick=2000, thorough=120000,
         doc="POMDPPolicy.run_on trajectories for alpha-vector, QMDP-style and stochastic-controller policies"),
    Prop("returns", lambda tier: return_cases(tier), prop_returns, quick=1500, thorough=60000,
         doc="calc_returns vs the defining backward recursion"),
    Prop("evaluate", lambda tier: eval_cases(tier), prop_evaluate, quick=1500, thorough=90000,
         doc="Policy.evaluate_on vs plain-loop averages of identically seeded roll-outs; deterministic chain walk"),
]
