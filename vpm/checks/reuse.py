"""Metamorphic 'object reuse' relation shared by several checks: a planner / learner object that has
already been used on problem A must give, on problem B, exactly what a fresh object with the same
configuration gives on B (no state may leak from one call to the next)."""
from vpm.checks.c13_scenarios import digest


def policy_table(policy, states):
    out = {}
    for s in states:
        try:
            out[s] = {a: p for a, p in policy.action_dist(s).items() if p > 0}
        except Exception as e:
            out[s] = type(e).__name__
    return out


def check_reuse(ctx, name, make, run, summarize, problem_a, problem_b):
    """make() -> fresh object; run(obj, problem) -> result; summarize(result, problem) -> JSON-able."""
    used = make()
    r_first = ctx.call(f"{name}.first_call_raises", run, used, problem_a)      # (deliberately not looked at yet)
    r_used = ctx.call(f"{name}.second_call_raises", run, used, problem_b)
    r_fresh = ctx.call(f"{name}.fresh_call_raises", run, make(), problem_b)
    d1, d2 = digest(summarize(r_used, problem_b)), digest(summarize(r_fresh, problem_b))
    ctx.check(d1 == d2, f"{name}.result_depends_on_earlier_use_of_the_object",
              lambda: f"reused object: {d1[:400]}\nfresh object:  {d2[:400]}")
    # ... and the other way round: what the first call returned belongs to the first problem - read only now, after the
    # object has been used again, it must still be what a fresh object returns for the first problem
    r_fresh_a = ctx.call(f"{name}.fresh_call_raises", run, make(), problem_a)
    d3, d4 = digest(summarize(r_first, problem_a)), digest(summarize(r_fresh_a, problem_a))
    ctx.check(d3 == d4, f"{name}.earlier_result_changed_by_later_use_of_the_object",
              lambda: f"first result, read after the second call: {d3[:400]}\nfresh object on the first problem: {d4[:400]}")
