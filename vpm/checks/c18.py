"""C18 — grid-game transitions are normalised and respect the physical constraints; factor tables."""
import itertools
import json
import math
from fractions import Fraction as F
from hypothesis import strategies as st

from vpm.core import Prop, Rejected

PROPERTY_ID = "C18"
FUZZ = {"props": ["tables", "gridgame"], "quick": [2, 800], "thorough": [8, 30000]}
RULE = ("Game strings from a layout grammar (interior up to 4x4 / 5x4 thorough, two agents on distinct free cells, 0-3 "
        "obstacles, 0-4 walls and 0-4 fences with any direction on any cell, 0-3 private / shared goals, fence success "
        "probability in {0,.25,.5,1}); per layout the states reachable by an own breadth-first search (capped) x ALL 25 "
        "joint actions are enumerated. Factor tables: pairs of tables over nested-dict rows with shared, disjoint and "
        "partially overlapping variables, integer weights incl. zeros, built from probs or logits. Oracle: own layout "
        "parser and per-successor constraint checker; natural join / mixture on exact Fractions. Non-trivial: a layout "
        "where some joint action makes the agents contend for a cell or swap, or where a wall / fence / obstacle is "
        "adjacent to an agent in a visited state; factor tables sharing a variable; distinct by spec hash."
        ' Also: three-player games (125 joint actions), 11-13-column corridors, factor-table variables that are leaf paths of nested rows with partially overlapping nesting.'
        ' collision_prob 0.5.')
ASSUMPTIONS = ["reachable states are capped per layout (40 quick, 150 thorough); all 25 joint actions of every visited "
               "state are enumerated"]

ACTIONS = [{"x": 0, "y": 0}, {"x": 1, "y": 0}, {"x": -1, "y": 0}, {"x": 0, "y": 1}, {"x": 0, "y": -1}]
WALLS = {"[": (-1, 0), "]": (1, 0), "^": (0, 1), "_": (0, -1)}
FENCES = {"{": (-1, 0), "}": (1, 0), "~": (0, 1), "u": (0, -1)}
GOALS = {"G0": ("A0",), "G1": ("A1",), "G": ("A0", "A1")}


@st.composite
def layouts(draw, tier="quick"):
    w = draw(st.integers(1, 5 if tier == "thorough" else 4))
    h = draw(st.integers(1, 4))
    wide = draw(st.integers(0, 5)) == 0
    if wide:
        # corridors with two-digit coordinates (x = 10, 11, ... sort differently as numbers and as text)
        w, h = draw(st.integers(11, 13)), draw(st.integers(1, 2))
    if w * h < 2:
        w = 2
    cells = [[[] for _ in range(w)] for _ in range(h)]
    coords = [(r, c) for r in range(h) for c in range(w)]
    order = draw(st.permutations(coords))
    a0, a1 = order[0], order[1]
    cells[a0[0]][a0[1]].append("A0")
    cells[a1[0]][a1[1]].append("A1")
    nag = 3 if (len(order) >= 3 and draw(st.integers(0, 3)) == 0) else 2      # sometimes a three-player game
    if nag == 3:
        cells[order[2][0]][order[2][1]].append("A2")
    free = list(order[nag:])
    nobs = draw(st.integers(0, min(3, len(free)))) if not wide else draw(st.integers(3, min(8, len(free))))
    if wide:
        # some obstacles right next to the agents, at least one in a two-digit column
        ags = list(order[:nag])
        near = sorted(free, key=lambda rc: min(abs(rc[0] - a[0]) + abs(rc[1] - a[1]) for a in ags))
        far = [rc for rc in free if rc[1] >= 10]
        free = (far[:1] + [rc for rc in near if rc not in far[:1]])
    for rc in free[:nobs]:
        cells[rc[0]][rc[1]].append("#")
    nongoal_ok = [rc for rc in coords if "#" not in cells[rc[0]][rc[1]]]
    for _ in range(draw(st.integers(0, 3))):
        rc = draw(st.sampled_from(nongoal_ok))
        cells[rc[0]][rc[1]].append(draw(st.sampled_from(["G0", "G1", "G"] + (["G2", "G2"] if nag == 3 else []))))
    for _ in range(draw(st.integers(0, 4))):
        rc = draw(st.sampled_from(coords))
        cells[rc[0]][rc[1]].append(draw(st.sampled_from(list(WALLS))))
    for _ in range(draw(st.integers(0, 4))):
        rc = draw(st.sampled_from(coords))
        cells[rc[0]][rc[1]].append(draw(st.sampled_from(list(FENCES))))
    rows = [" ".join(".".join(sorted(set(c))) if c else "." for c in row) for row in cells]
    return {"rows": rows, "fence_success_prob": draw(st.sampled_from([0, 0.25, 0.5, 1, 1.0])),
            "goal_reward": draw(st.sampled_from([10, 1])), "step_cost": draw(st.sampled_from([-1, 0])),
            "collision_cost": draw(st.sampled_from([0, -2])), "agents": nag,
            "collision_prob": draw(st.sampled_from([None, None, None, 0.5]))}


def parse(rows, GOALS=None):
    """own parser: returns width, height and feature maps keyed by (x, y) with y counted from the bottom"""
    GOALS = GOALS or globals()["GOALS"]
    h = len(rows)
    grid = [r.split() for r in rows]
    w = len(grid[0])
    obstacles, goals, walls, fences = set(), {}, set(), set()
    for ri, row in enumerate(grid):
        y = h - 1 - ri
        for x, cell in enumerate(row):
            for sym in [e for e in cell.split(".") if e]:
                if sym == "#":
                    obstacles.add((x, y))
                elif sym in GOALS:
                    goals.setdefault((x, y), set()).update(GOALS[sym])
                elif sym in WALLS:
                    d = WALLS[sym]
                    walls.add(((x, y), (x + d[0], y + d[1])))
                elif sym in FENCES:
                    d = FENCES[sym]
                    fences.add(((x, y), (x + d[0], y + d[1])))
    return w, h, obstacles, goals, walls, fences


def skey(s):
    return json.dumps(s, sort_keys=True)


def prop_gridgame(spec, ctx):
    from msdm.domains.gridgame.tabulargridgame import TabularGridGame, TERMINALSTATE
    game_string = "\n".join(spec["rows"])
    nag = spec.get("agents", 2)
    names = ["A0", "A1", "A2"][:nag]
    extra = {}
    goalmap = dict(GOALS)
    if nag == 3:
        goalmap = {"G0": ("A0",), "G1": ("A1",), "G2": ("A2",), "G": ("A0", "A1", "A2")}
        extra = dict(agent_symbols=tuple(names), goal_symbols=tuple(goalmap.items()))
        ctx.event("three_agents")
    if spec.get("collision_prob") is not None:
        extra["collision_prob"] = spec["collision_prob"]
        ctx.event("collision_prob=" + str(spec["collision_prob"]))
    gg = ctx.call("C18.game.construct_raises", TabularGridGame, game_string, fence_success_prob=spec["fence_success_prob"],
                  goal_reward=spec["goal_reward"], step_cost=spec["step_cost"], collision_cost=spec["collision_cost"], **extra)
    w, h, obstacles, goals, walls, fences = parse(spec["rows"], goalmap)
    init = [s for s, p in gg.initial_state_dist().items() if p > 0]
    ctx.check(len(init) == 1, "C18.game.initial_state_is_single")
    cap = (150 if ctx.tier == "thorough" else 40) if nag == 2 else (40 if ctx.tier == "thorough" else 10)
    seen = {skey(init[0]): init[0]}
    queue = [init[0]]
    contend = adjacent = False
    visited = 0
    joint = [dict(zip(names, ja)) for ja in itertools.product(ACTIONS, repeat=nag)]
    pairs_of_agents = list(itertools.combinations(names, 2))
    while queue and visited < cap:
        s = queue.pop(0)
        visited += 1
        terminal = bool(s.get("isTerminal", False))
        pos = None if terminal else {n: (s[n]["x"], s[n]["y"]) for n in names}
        on_goal = (not terminal) and any(n in goals.get(pos[n], ()) for n in names)
        if not terminal:
            for n in names:
                for d in ((1, 0), (-1, 0), (0, 1), (0, -1)):
                    nb = (pos[n][0] + d[0], pos[n][1] + d[1])
                    if nb in obstacles or (pos[n], nb) in walls or (pos[n], nb) in fences:
                        adjacent = True
        for ja in joint:
            dist = ctx.call("C18.game.next_state_dist_raises", gg.next_state_dist, s, ja)
            probs = [float(p) for p in dist.probs]
            tot = sum(probs)
            ctx.check(abs(tot - 1) <= 1e-9 and all(p >= 0 and math.isfinite(p) for p in probs), "C18.game.distribution_not_normalised",
                      lambda: f"state {s} joint action {ja}: probabilities sum to {tot}")
            succ = [(ns, p) for ns, p in zip(dist.support, probs) if p > 0]
            if terminal or on_goal:
                ctx.check(len(succ) == 1 and succ[0][0].get("isTerminal", False) and abs(succ[0][1] - 1) <= 1e-12,
                          "C18.game.goal_or_terminal_state_must_go_to_terminal", lambda: f"state {s}: successors {succ}")
                for ns, p in succ:
                    jr = gg.joint_rewards(s, ja, ns)
                    if terminal or ns.get("isTerminal", False):
                        ctx.check(all(v == 0 for v in jr.values()), "C18.game.terminal_pays_nothing", lambda: f"{jr}")
                continue
            targets = {n: (pos[n][0] + ja[n]["x"], pos[n][1] + ja[n]["y"]) for n in names}
            if any(targets[p_] == targets[q_] or (targets[p_] == pos[q_] and targets[q_] == pos[p_]) for p_, q_ in pairs_of_agents):
                contend = True
            for ns, p in succ:
                ctx.check(not ns.get("isTerminal", False), "C18.game.terminal_from_non_goal_state", lambda: f"state {s}")
                if ns.get("isTerminal", False):
                    continue
                npos = {n: (ns[n]["x"], ns[n]["y"]) for n in names}
                for n in names:
                    x, y = npos[n]
                    ctx.check(0 <= x < w and 0 <= y < h, "C18.game.agent_off_grid", lambda: f"{s} --{ja}--> {ns}")
                    ctx.check(npos[n] not in obstacles, "C18.game.agent_inside_obstacle", lambda: f"{s} --{ja}--> {ns} (p={p})")
                    ctx.check(abs(x - pos[n][0]) + abs(y - pos[n][1]) <= 1, "C18.game.agent_moved_more_than_one_cell",
                              lambda: f"{s} --{ja}--> {ns}")
                    ctx.check((pos[n], npos[n]) not in walls, "C18.game.agent_crossed_wall", lambda: f"{s} --{ja}--> {ns} (p={p})")
                    if spec["fence_success_prob"] == 0:
                        ctx.check((pos[n], npos[n]) not in fences, "C18.game.agent_crossed_impassable_fence", lambda: f"{s} --{ja}--> {ns}")
                for p_, q_ in pairs_of_agents:
                    if npos[p_] == npos[q_]:
                        ctx.check(npos[p_] in goals, "C18.game.agents_share_non_goal_cell", lambda: f"{p_},{q_}: {s} --{ja}--> {ns} (p={p})")
                    ctx.check(not (npos[p_] == pos[q_] and npos[q_] == pos[p_]), "C18.game.agents_swapped_cells",
                              lambda: f"{p_},{q_}: {s} --{ja}--> {ns} (p={p})")
                k = skey(ns)
                if k not in seen:
                    seen[k] = ns
                    queue.append(ns)
            # rewards are finite numbers for every agent
            for ns, p in succ[:2]:
                jr = gg.joint_rewards(s, ja, ns)
                ctx.check(set(jr) == set(names) and all(math.isfinite(v) for v in jr.values()), "C18.game.joint_rewards_finite")
        if on_goal and skey(TERMINALSTATE) not in seen:
            seen[skey(TERMINALSTATE)] = TERMINALSTATE
            queue.append(TERMINALSTATE)
    ctx.event(f"visited_states", visited)
    ctx.event("pairs", visited * len(joint))
    if contend:
        ctx.event("contention_or_swap")
    ctx.nontrivial(contend or adjacent)


# ---------------------------------------------------------------- factor tables
# variables are leaf paths of nested-dict rows ("c.x" is row["c"]["x"]); two tables may share a top-level key and only
# part of what is nested under it. ("c" with whole-dict values is kept for older replay files only.)
VALS = {"a": [0, 1, 2], "b": ["x", "y"], "c": [{"x": 0, "y": 0}, {"x": 1, "y": 0}, {"x": 0, "y": 1}], "d": [0, 1],
        "c.x": [0, 1], "c.y": [0, 1], "e.u": ["p", "q"], "e.v.w": [0, 1], "e.v.z": [0, 1]}
DRAWN = ["a", "b", "d", "c.x", "c.y", "e.u", "e.v.w", "e.v.z"]


def make_row(vs, r):
    row = {}
    for v, i in zip(vs, r):
        cur = row
        parts = v.split(".")
        for k in parts[:-1]:
            cur = cur.setdefault(k, {})
        cur[parts[-1]] = VALS[v][i]
    return row


def flatten(row, prefix=()):
    out = {}
    for k, v in row.items():
        if isinstance(v, dict):
            out.update(flatten(v, prefix + (k,)))
        else:
            out[prefix + (k,)] = v
    return out


def unflatten(flat):
    row = {}
    for path, v in flat.items():
        cur = row
        for k in path[:-1]:
            cur = cur.setdefault(k, {})
        cur[path[-1]] = v
    return row


@st.composite
def table_specs(draw, variables=None):
    vs = variables or draw(st.lists(st.sampled_from(DRAWN), min_size=1, max_size=4, unique=True))
    vs = sorted(vs)
    allrows = list(itertools.product(*[range(len(VALS[v])) for v in vs]))
    k = draw(st.integers(1, min(5, len(allrows))))
    rows = draw(st.lists(st.sampled_from(allrows), min_size=k, max_size=k, unique=True))
    ws = [draw(st.integers(0, 4)) for _ in rows]
    if not any(ws):
        ws[0] = 1
    return {"vars": vs, "rows": [list(r) for r in rows], "w": ws, "how": draw(st.sampled_from(["probs", "logits"]))}


@st.composite
def table_pairs(draw, tier="quick"):
    p = draw(table_specs())
    same = draw(st.integers(0, 3))
    if same == 0:
        q = draw(table_specs(variables=p["vars"]))
    elif same == 1:
        # the same top-level keys, partly different variables nested under them
        tops = sorted({v.split(".")[0] for v in p["vars"]})
        pool = [v for v in DRAWN if v.split(".")[0] in tops]
        vs = draw(st.lists(st.sampled_from(pool), min_size=1, max_size=4, unique=True))
        for t in tops:
            if not any(v.split(".")[0] == t for v in vs):
                vs.append(draw(st.sampled_from([v for v in pool if v.split(".")[0] == t])))
        q = draw(table_specs(variables=vs))
    else:
        q = draw(table_specs())
    return {"p": p, "q": q, "w1": draw(st.sampled_from([0.2, 0.5, 1, 2])), "w2": draw(st.sampled_from([0.8, 0.5, 1, 3]))}


def build_table(t):
    from msdm.core.distributions import DiscreteFactorTable
    rows = [make_row(t["vars"], r) for r in t["rows"]]
    tot = sum(t["w"])
    if t["how"] == "probs":
        return DiscreteFactorTable(rows, probs=[w / tot for w in t["w"]]), rows
    return DiscreteFactorTable(rows, logits=[math.log(w) if w > 0 else -math.inf for w in t["w"]]), rows


def rkey(row):
    return json.dumps(row, sort_keys=True)


def ref_measure(t):
    """row -> weight. Tables built from probs carry normalised weights, tables built from logits
    carry the raw weights exp(logit) (that is what scaling and mixing act on)."""
    tot = sum(t["w"]) if t["how"] == "probs" else 1
    return {rkey(make_row(t["vars"], r)): F(w, tot) for r, w in zip(t["rows"], t["w"])}


def compare_table(ctx, name, table, want, what):
    got = {}
    for e, p in zip(table.support, table.probs):
        got[rkey(e)] = got.get(rkey(e), 0.0) + float(p)
    for k in set(got) | set(want):
        g, w = got.get(k, 0.0), float(want.get(k, 0))
        ctx.check(abs(g - w) <= 1e-9, name, lambda: f"{what}: row {k}: msdm {g} expected {w}")


def prop_tables(case, ctx):
    p, prow = build_table(case["p"])
    q, qrow = build_table(case["q"])
    mp, mq = ref_measure(case["p"]), ref_measure(case["q"])
    vp, vq = case["p"]["vars"], case["q"]["vars"]
    # product = normalised natural join (rows agree on every shared leaf path) with multiplied weights
    join = {}
    shared = set()
    for kr, wr in mp.items():
        for ks, ws in mq.items():
            r, s = flatten(json.loads(kr)), flatten(json.loads(ks))
            shared = set(r) & set(s)
            if all(r[v] == s[v] for v in shared) and wr * ws > 0:
                m = dict(r)
                m.update(s)
                m = unflatten(m)
                join[rkey(m)] = join.get(rkey(m), F(0)) + wr * ws
    z = sum(join.values(), F(0))
    prod = ctx.call("C18.tables.product_raises", lambda: p & q)
    if z > 0:
        compare_table(ctx, "C18.tables.product_is_normalised_natural_join", prod, {k: v / z for k, v in join.items()}, "p & q")
        ctx.check(abs(sum(float(x) for x in prod.probs) - 1) <= 1e-9, "C18.tables.product_normalised")
    else:
        ctx.check(all(float(x) == 0 for x in prod.probs) or len(prod.support) == 0, "C18.tables.empty_join_has_no_mass")
        ctx.event("empty_join")
    # mixture over the same variables adds weights row by row
    if vp == vq:
        w1, w2 = F(case["w1"]).limit_denominator(100), F(case["w2"]).limit_denominator(100)
        mix = {}
        for k, v in mp.items():
            mix[k] = mix.get(k, F(0)) + w1 * v
        for k, v in mq.items():
            mix[k] = mix.get(k, F(0)) + w2 * v
        zz = sum(mix.values(), F(0))
        got = ctx.call("C18.tables.mixture_raises", lambda: (p * case["w1"]) | (q * case["w2"]))
        compare_table(ctx, "C18.tables.mixture_adds_weights", got, {k: v / zz for k, v in mix.items() if v > 0}, "w1*p | w2*q")
        ctx.event("mixture_checked")
    # marginalising onto the first variable sums weights
    v0 = vp[0].split(".")[0]
    marg = ctx.call("C18.tables.marginalize_raises", p.marginalize, lambda r: {v0: r[v0]})
    want = {}
    for k, v in mp.items():
        kk = rkey({v0: json.loads(k)[v0]})
        want[kk] = want.get(kk, F(0)) + v
    zm = sum(want.values(), F(0))
    compare_table(ctx, "C18.tables.marginalize_sums_weights", marg, {k: v / zm for k, v in want.items()}, "marginalize")
    tops_p, tops_q = {v.split(".")[0] for v in vp}, {v.split(".")[0] for v in vq}
    if not shared:
        ctx.event("disjoint_variables")
    elif set(vp) == set(vq):
        ctx.event("same_variables")
    elif tops_p == tops_q:
        ctx.event("same_top_level_keys_partial_nested_overlap")
    else:
        ctx.event("partial_overlap")
    ctx.nontrivial(bool(shared) and len(mp) >= 2 and len(mq) >= 2)


PROPS = [
    Prop("gridgame", lambda tier: layouts(tier), prop_gridgame, quick=160, thorough=7200,
         doc="all 25 joint actions at every visited reachable state of generated layouts: normalisation and physical constraints"),
    Prop("tables", lambda tier: table_pairs(tier), prop_tables, quick=3000, thorough=180000,
         doc="DiscreteFactorTable product (natural join), weighted mixture and marginalisation vs exact Fractions"),
]
