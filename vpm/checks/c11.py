"""C11 — finite distributions obey the probability calculus."""
import math
import random
from fractions import Fraction as F
import numpy as np
from hypothesis import strategies as st

from vpm.core import Prop, Rejected
from vpm.labels import enc, dec
from vpm.ref import prob as RP

PROPERTY_ID = "C11"
FUZZ = {"props": ["ops", "pipeline"], "quick": [2, 1500], "thorough": [8, 40000]}
RULE = ("Distribution specs of every kind (dict, uniform, deterministic, softmax, table-backed) over 1-6 events from "
        "a mixed-hashable pool (ints, strings, tuples, frozensets, None, floats), integer weights incl. zero "
        "entries, normalised or not; function arguments as lookup tables over the support (projections with "
        "collisions, kernels, likelihoods incl. 0 and booleans, real functions); generated operation pipelines "
        "(marginalise/chain/condition/joint/mixture/conjunction/normalise/scale/re-kind) advanced in lock-step with "
        "an exact-Fraction twin; owned random streams (incl. 0.0, 1-2^-53 and cumulative-weight boundaries) and "
        "integer seeds for sampling. Non-trivial: >=3 events and (zero entry or projection collision or two kinds "
        "mixed) for the calculus; >=2 positive events for sampling; distinct by spec hash."
        ' Also: unscaled mixtures with every kind on either side, likelihood values of type float32 / float64 / Fraction / numpy int, Fraction and int softmax scores shifted by 1e10..1e18.'
        ' One draw and k draws from unnormalised measures.')
ASSUMPTIONS = ["floats are compared with exact rationals at 1e-12 relative to the measure's scale (1e-10 for the "
               "log-space conjunction and softmax)", "undefined cases (conditioning / conjunction with zero mass, "
               "normalising a zero measure) are skipped and counted"]

POOL = [0, 1, 2, -1, "a", "b", "", (0, 1), (1,), ("a", 0), frozenset({1, 2}), frozenset(), None, 2.5, (0, (1, 2)), "c", 7]
KINDS = ["dict", "dict", "uniform", "det", "softmax", "table"]


@st.composite
def dist_specs(draw, kinds=KINDS, min_events=1, max_events=6, normalised=None, positive_total=True):
    kind = draw(st.sampled_from(kinds))
    k = 1 if kind == "det" else draw(st.integers(min_events, max_events))
    idxs = draw(st.lists(st.integers(0, len(POOL) - 1), min_size=k, max_size=k, unique=True))
    events = [enc(POOL[i]) for i in idxs]
    if kind == "softmax":
        w = [draw(st.integers(-8, 8)) for _ in range(k)]
        return {"kind": kind, "events": events, "w": w, "den": 2}
    w = [draw(st.integers(0, 5)) for _ in range(k)]
    if k >= 2 and draw(st.integers(0, 7)) == 0:
        w[draw(st.integers(0, k - 1))] = 10 ** draw(st.sampled_from([9, 12]))  # probabilities ~1e-9..1e-12 elsewhere
    if positive_total and not any(w):
        w[draw(st.integers(0, k - 1))] = 1
    norm = draw(st.booleans()) if normalised is None else normalised
    den = sum(w) if (norm and sum(w) > 0) else draw(st.sampled_from([1, 3, 7, 10]))
    if normalised is None and sum(w) > 0 and max(w) <= 5 and draw(st.integers(0, 5)) == 0:
        # total mass within ~1e-5 / 1e-9 of 1 but not 1
        scale = draw(st.sampled_from([10 ** 5, 10 ** 9]))
        w = [x * scale for x in w]
        den = sum(w) + draw(st.sampled_from([-3, -1, 1, 2]))
    return {"kind": kind, "events": events, "w": w, "den": den}


def ref_dist(d):
    ev = [dec(e) for e in d["events"]]
    if d["kind"] == "uniform":
        return {e: F(1, len(ev)) for e in ev}
    if d["kind"] == "det":
        return {ev[0]: F(1)}
    if d["kind"] == "softmax":
        return RP.softmax({e: w / d["den"] for e, w in zip(ev, d["w"])})
    return {e: F(w, d["den"]) for e, w in zip(ev, d["w"])}


def make_table_dist(events, probs):
    from msdm.core.table import ProbabilityTable, TableIndex
    pt = ProbabilityTable(data=np.array([list(probs)], dtype=float),
                          table_index=TableIndex(field_names=("row", "event"), field_domains=(("r",), tuple(events))))
    return pt["r"]


def build_dist(d):
    from msdm.core.distributions import DictDistribution, UniformDistribution, DeterministicDistribution, SoftmaxDistribution
    ev = [dec(e) for e in d["events"]]
    k = d["kind"]
    if k == "uniform":
        return UniformDistribution(ev)
    if k == "det":
        return DeterministicDistribution(ev[0])
    if k == "softmax":
        return SoftmaxDistribution({e: w / d["den"] for e, w in zip(ev, d["w"])})
    probs = [w / d["den"] for w in d["w"]]
    if k == "table":
        return make_table_dist(ev, probs)
    return DictDistribution(dict(zip(ev, probs)))


def fl(x):
    return float(x)


def compare(ctx, name, got, want, tol=1e-12, what=""):
    """got: msdm distribution, want: dict event -> number."""
    scale = max([abs(fl(x)) for x in want.values()] + [1.0])
    gd = dict(got.items())
    for e in set(gd) | set(want):
        g = fl(gd.get(e, 0.0))
        w = fl(want.get(e, 0))
        ctx.check(abs(g - w) <= tol * scale, name, lambda: f"{what} event {e!r}: msdm {g} expected {w}")
    # prob() agrees with items()
    for e, p in gd.items():
        ctx.check(abs(fl(got.prob(e)) - fl(p)) <= 1e-15, name + ".prob_vs_items", lambda: f"{e!r}")


def sidx(support):
    order = sorted(support, key=repr)
    return {e: i for i, e in enumerate(order)}


LIKS = [0, F(1, 4), F(1, 2), 1, True, False, 2]


@st.composite
def op_cases(draw, tier="quick"):
    p = draw(dist_specs())
    q = draw(dist_specs())
    n = 8
    return {
        "p": p, "q": q,
        "proj": [draw(st.integers(0, 2)) for _ in range(n)],
        "kern": [[draw(st.integers(0, 3)) for _ in range(3)] for _ in range(n)],
        "kern_kind": [draw(st.sampled_from([0, 0, 1, 2, 3, 4])) for _ in range(n)],
        "lik": [draw(st.integers(0, len(LIKS) - 1)) for _ in range(n)],
        # the number type the likelihood function returns (all are numbers a caller may plausibly return)
        "lik_type": draw(st.sampled_from(["py", "py", "float32", "float64", "fraction", "npint"])),
        "real": [draw(st.integers(-5, 5)) for _ in range(n)],
        "w1": draw(st.sampled_from([0.25, 0.5, 1, 2, 0.75])), "w2": draw(st.sampled_from([0.25, 0.5, 1, 3])),
        "shift": draw(st.sampled_from([-100.0, -3.5, 0.5, 10.0, 500.0])),
    }


def funcs(case, support):
    from msdm.core.distributions import DictDistribution
    ix = sidx(support)
    n = len(case["proj"])
    proj = lambda e: ("m", case["proj"][ix[e] % n])

    def kw(e):
        w = list(case["kern"][ix[e] % n])
        if not any(w):
            w[0] = 1
        return w
    kinds = case.get("kern_kind", [0] * n)

    def kern_ref(e):
        k = kinds[ix[e] % n]
        w = kw(e)
        j0 = [j for j, x in enumerate(w) if x > 0][0]
        if k == 1:      # point mass
            return {("c", j0): F(1)}
        if k == 2:      # one-point, unnormalised
            return {("c", j0): F(1, 2)}
        if k == 3:      # one-point, zero mass
            return {("c", j0): F(0)}
        if k == 4:      # scaled multi-point
            return {("c", j): F(x, 2 * sum(w)) for j, x in enumerate(w)}
        return {("c", j): F(x, sum(w)) for j, x in enumerate(w)}

    def kern(e):
        from msdm.core.distributions import DeterministicDistribution
        k = kinds[ix[e] % n]
        r = kern_ref(e)
        if k == 1:
            return DeterministicDistribution(list(r)[0])
        if k == 4:
            w = kw(e)
            return 0.5 * DictDistribution({("c", j): x / sum(w) for j, x in enumerate(w)})
        return DictDistribution({y: float(q) for y, q in r.items()})
    lik_ref = lambda e: LIKS[case["lik"][ix[e] % n]]

    lt = case.get("lik_type", "py")

    def lik(e):
        v = lik_ref(e)
        if lt == "float32":       # 0, 1/4, 1/2, 1, 2 are exact in single precision
            return np.float32(float(v))
        if lt == "float64":
            return np.float64(float(v))
        if lt == "fraction":
            return F(v) if not isinstance(v, bool) else v
        if lt == "npint" and not isinstance(v, (F, bool)):
            return np.int64(v)
        return float(v) if isinstance(v, F) else v
    real = lambda e: case["real"][ix[e] % n]
    return proj, kern, kern_ref, lik, lik_ref, real


def prop_ops(case, ctx):
    p, q = build_dist(case["p"]), build_dist(case["q"])
    rp, rq = ref_dist(case["p"]), ref_dist(case["q"])
    tol = 1e-10 if "softmax" in (case["p"]["kind"], case["q"]["kind"]) else 1e-12
    proj, kern, kern_ref, lik, lik_ref, real = funcs(case, list(rp))
    # the distribution itself
    compare(ctx, "C11.representation", p, rp, tol, "p")
    ctx.check(list(p.support) == list(rp) or set(p.support) == set(rp), "C11.support", lambda: f"{list(p.support)}")
    # marginalise
    m = ctx.call("C11.marginalize.raises", p.marginalize, proj)
    compare(ctx, "C11.marginalize", m, RP.marginalize(rp, proj), tol, "marginalize")
    mscale = max(1.0, fl(sum(abs(x) for x in rp.values())))
    ctx.check(abs(sum(fl(x) for x in dict(m.items()).values()) - fl(sum(rp.values()))) <= tol * 10 * mscale,
              "C11.marginalize.preserves_mass")
    # chain
    c = ctx.call("C11.chain.raises", p.chain, kern)
    compare(ctx, "C11.chain", c, RP.chain(rp, kern_ref), tol, "chain")
    # condition
    rc = RP.condition(rp, lik_ref)
    if rc is not None:
        cd = ctx.call("C11.condition.raises", p.condition, lik)
        # (single-precision likelihoods make numpy carry the products in single precision: that accuracy is the caller's)
        ctol, ntol = (1e-6, 1e-6) if case.get("lik_type") == "float32" else (tol, 1e-9)
        compare(ctx, "C11.condition", cd, rc, ctol, "condition")
        ctx.check(abs(sum(fl(x) for x in dict(cd.items()).values()) - 1) <= ntol, "C11.condition.normalised")
    else:
        ctx.event("condition_zero_mass_skipped")
    # joint
    j = ctx.call("C11.joint.raises", p.joint, q)
    compare(ctx, "C11.joint", j, RP.joint(rp, rq), tol, "joint")
    # scaled mixture
    mx = ctx.call("C11.mixture.raises", lambda: (case["w1"] * p) | (q * case["w2"]))
    compare(ctx, "C11.mixture", mx, RP.mix(F(case["w1"]), rp, F(case["w2"]), rq), tol, "mixture")
    # the operands of `|` unscaled (weights 1): every kind as the left and as the right operand
    mx = ctx.call("C11.mixture.raises", lambda: p | q)
    compare(ctx, "C11.mixture_unscaled", mx, RP.mix(F(1), rp, F(1), rq), tol, "p | q")
    mx = ctx.call("C11.mixture.raises", lambda: p | (q * case["w2"]))
    compare(ctx, "C11.mixture_unscaled", mx, RP.mix(F(1), rp, F(case["w2"]), rq), tol, "p | w2*q")
    mx = ctx.call("C11.mixture.raises", lambda: (case["w1"] * p) | q)
    compare(ctx, "C11.mixture_unscaled", mx, RP.mix(F(case["w1"]), rp, F(1), rq), tol, "w1*p | q")
    # conjunction
    rj = RP.conj(rp, rq)
    if rj is not None:
        cj = ctx.call("C11.conjunction.raises", lambda: p & q)
        compare(ctx, "C11.conjunction", cj, rj, 1e-10, "conjunction")
    else:
        ctx.event("conjunction_zero_mass_skipped")
    # expectation
    ex = ctx.call("C11.expectation.raises", p.expectation, real)
    ctx.check(abs(fl(ex) - fl(RP.expectation(rp, real))) <= tol * 10 * mscale * 5, "C11.expectation",
              lambda: f"{ex} expected {RP.expectation(rp, real)}")
    # normalise
    rn = RP.normalize(rp)
    if rn is not None:
        nm = ctx.call("C11.normalize.raises", p.normalize)
        compare(ctx, "C11.normalize", nm, rn, tol, "normalize")
    # softmax: normalised and shift invariant
    if case["p"]["kind"] == "softmax":
        from msdm.core.distributions import SoftmaxDistribution
        ev = [dec(e) for e in case["p"]["events"]]
        sc = {e: w / case["p"]["den"] for e, w in zip(ev, case["p"]["w"])}
        ctx.check(abs(sum(p.values()) - 1) <= 1e-12, "C11.softmax.normalised")
        sh = ctx.call("C11.softmax.raises", SoftmaxDistribution, {e: s + case["shift"] for e, s in sc.items()})
        for e in ev:
            ctx.check(abs(sh.prob(e) - p.prob(e)) <= 1e-10 * max(p.prob(e), 1e-3) + 1e-15, "C11.softmax.shift_invariant",
                      lambda: f"{e!r}: {sh.prob(e)} vs {p.prob(e)} shift {case['shift']}")
        # scores of an exact number type (Fraction, int) shifted by an exactly representable huge constant: the differences
        # - all that matters - are still exact in the caller's arithmetic
        big = [F(10) ** 10, F(10) ** 17, -(F(10) ** 18)][len(ev) % 3]
        exact = {e: F(w, case["p"]["den"]) for e, w in zip(ev, case["p"]["w"])}
        shx = ctx.call("C11.softmax.raises", SoftmaxDistribution, {e: s + big for e, s in exact.items()})
        ints = {e: int(w) + int(big) for e, w in zip(ev, case["p"]["w"])}
        p_int = ctx.call("C11.softmax.raises", SoftmaxDistribution, {e: int(w) for e, w in zip(ev, case["p"]["w"])})
        shi = ctx.call("C11.softmax.raises", SoftmaxDistribution, ints)
        for e in ev:
            ctx.check(abs(shx.prob(e) - p.prob(e)) <= 1e-10 * max(p.prob(e), 1e-3) + 1e-15, "C11.softmax.shift_invariant",
                      lambda: f"{e!r}: Fraction scores shifted by {big}: {shx.prob(e)} vs {p.prob(e)}")
            ctx.check(abs(shi.prob(e) - p_int.prob(e)) <= 1e-10 * max(p_int.prob(e), 1e-3) + 1e-15, "C11.softmax.shift_invariant",
                      lambda: f"{e!r}: int scores shifted by {int(big)}: {shi.prob(e)} vs {p_int.prob(e)}")
    zero = any(x == 0 for x in rp.values())
    coll = len({proj(e) for e in rp}) < len(rp)
    mixed = case["p"]["kind"] != case["q"]["kind"]
    ctx.event("kind=" + case["p"]["kind"])
    ctx.nontrivial(len(rp) >= 3 and (zero or coll or mixed))


# ---------------- pipelines (model-based: msdm object and Fraction twin in lock-step) -------------
@st.composite
def pipeline_cases(draw, tier="quick"):
    start = draw(dist_specs(kinds=["dict", "uniform", "table", "det"]))
    nops = draw(st.integers(1, 5 if tier == "thorough" else 4))
    ops = []
    for _ in range(nops):
        kind = draw(st.sampled_from(["marg", "chain", "cond", "joint", "mix", "and", "normalize", "scale", "rekind"]))
        op = {"op": kind}
        if kind == "marg":
            op["t"] = [draw(st.integers(0, 2)) for _ in range(5)]
        elif kind == "chain":
            op["t"] = [[draw(st.integers(0, 3)) for _ in range(2)] for _ in range(4)]
            op["kk"] = [draw(st.sampled_from([0, 0, 1, 2, 3])) for _ in range(4)]
        elif kind == "cond":
            op["t"] = [draw(st.integers(0, len(LIKS) - 1)) for _ in range(5)]
        elif kind in ("joint",):
            op["d"] = draw(dist_specs(kinds=["dict", "uniform", "table", "det"], max_events=2))
        elif kind == "mix":
            op["d"] = draw(dist_specs(kinds=["dict", "uniform", "table", "det"], max_events=4))
            op["w1"] = draw(st.sampled_from([0.25, 0.5, 1, 2]))
            op["w2"] = draw(st.sampled_from([0.25, 0.5, 1, 2]))
        elif kind == "and":
            op["t"] = [draw(st.integers(0, 3)) for _ in range(6)]
            op["k"] = draw(st.sampled_from(["dict", "table"]))
        elif kind == "scale":
            op["w"] = draw(st.sampled_from([0.25, 0.5, 2, 4]))
        elif kind == "rekind":
            op["k"] = draw(st.sampled_from(["dict", "table", "uniform"]))
        ops.append(op)
    return {"start": start, "ops": ops}


def prop_pipeline(case, ctx):
    from msdm.core.distributions import DictDistribution, UniformDistribution
    cur = build_dist(case["start"])
    ref = ref_dist(case["start"])
    applied = 0
    kinds_seen = {case["start"]["kind"]}
    for step, op in enumerate(case["ops"]):
        if len(ref) > 40:
            break
        ix = sidx(list(ref))
        k = op["op"]
        name = f"C11.pipeline.{k}"
        if k == "marg":
            f = lambda e: ("m", op["t"][ix[e] % len(op["t"])])
            cur = ctx.call(name + ".raises", cur.marginalize, f)
            ref = RP.marginalize(ref, f)
        elif k == "chain":
            def ws(e):
                w = list(op["t"][ix[e] % len(op["t"])])
                if not any(w):
                    w[0] = 1
                return w
            kk = op.get("kk", [0, 0, 0, 0])

            def kref(e):
                w = ws(e)
                kind = kk[ix[e] % len(kk)]
                j0 = [j for j, x in enumerate(w) if x > 0][0]
                if kind == 1:
                    return {("c", j0): F(1)}
                if kind == 2:
                    return {("c", j0): F(1, 2)}
                if kind == 3:
                    return {("c", j0): F(0)}
                return {("c", j): F(x, sum(w)) for j, x in enumerate(w)}
            cur = ctx.call(name + ".raises", cur.chain, lambda e: DictDistribution({y: float(q) for y, q in kref(e).items()}))
            ref = RP.chain(ref, kref)
        elif k == "cond":
            lr = lambda e: LIKS[op["t"][ix[e] % len(op["t"])]]
            r2 = RP.condition(ref, lr)
            if r2 is None:
                ctx.event("skipped_zero_mass")
                continue
            cur = ctx.call(name + ".raises", cur.condition, lambda e: float(lr(e)) if isinstance(lr(e), F) else lr(e))
            ref = r2
        elif k == "joint":
            if len(ref) > 6:
                continue
            d2 = build_dist(op["d"])
            kinds_seen.add(op["d"]["kind"])
            cur = ctx.call(name + ".raises", cur.joint, d2)
            ref = RP.joint(ref, ref_dist(op["d"]))
        elif k == "mix":
            d2 = build_dist(op["d"])
            kinds_seen.add(op["d"]["kind"])
            cur = ctx.call(name + ".raises", lambda: (op["w1"] * cur) | (op["w2"] * d2))
            ref = RP.mix(F(op["w1"]), ref, F(op["w2"]), ref_dist(op["d"]))
        elif k == "and":
            # second operand: weights over a subset of the current support plus one foreign event
            evs = sorted(ref, key=repr)
            w = {e: op["t"][i % len(op["t"])] for i, e in enumerate(evs)}
            other = {e: F(x, 4) for e, x in w.items()}
            other = {e: x for j, (e, x) in enumerate(other.items()) if j % 3 != 2}
            other[("foreign", step)] = F(1, 4)
            r2 = RP.conj(ref, other)
            if r2 is None:
                ctx.event("skipped_zero_mass")
                continue
            if op["k"] == "table":
                d2 = make_table_dist(list(other), [float(x) for x in other.values()])
                kinds_seen.add("table")
            else:
                d2 = DictDistribution({e: float(x) for e, x in other.items()})
            cur = ctx.call(name + ".raises", lambda: cur & d2)
            ref = r2
        elif k == "normalize":
            r2 = RP.normalize(ref)
            if r2 is None:
                continue
            cur = ctx.call(name + ".raises", cur.normalize)
            ref = r2
        elif k == "scale":
            cur = ctx.call(name + ".raises", lambda: cur * op["w"])
            ref = {e: x * F(op["w"]) for e, x in ref.items()}
        elif k == "rekind":
            evs = list(ref)
            if op["k"] == "uniform":
                if len(set(ref.values())) == 1 and list(ref.values())[0] == F(1, len(ref)):
                    cur = UniformDistribution(evs)
                    kinds_seen.add("uniform")
                else:
                    continue
            elif op["k"] == "table":
                cur = make_table_dist(evs, [cur.prob(e) for e in evs])
                kinds_seen.add("table")
            else:
                cur = DictDistribution({e: cur.prob(e) for e in evs})
        applied += 1
        compare(ctx, name, cur, ref, 1e-10, f"after step {step} ({k})")
        ctx.event("op=" + k)
    ctx.nontrivial(applied >= 2 and len(ref) >= 2 and len(kinds_seen) >= 2)


# ---------------- sampling -------------------------------------------------------------------------
class OwnedRandom(random.Random):
    """random.Random whose random() pops floats from a generated list (then a seeded tail)."""

    def __init__(self, stream, tail_seed=0):
        super().__init__(tail_seed)
        self._stream = list(stream)
        self.used = 0

    def random(self):
        if self._stream:
            self.used += 1
            return self._stream.pop(0)
        return super().random()


@st.composite
def sampling_cases(draw, tier="quick"):
    d = draw(dist_specs(normalised=True))
    tot = max(sum(d["w"]), 1) if d["kind"] not in ("softmax",) else 1
    boundaries = [c / tot for c in range(0, tot)] if d["kind"] in ("dict", "table") and tot <= 64 else [0.0, 0.5]
    special = [0.0, 1 - 2 ** -53, 0.5, 2 ** -53] + boundaries
    stream = draw(st.lists(st.one_of(st.sampled_from(special),
                                     st.floats(0, 1, exclude_max=True, allow_nan=False)), min_size=1, max_size=12))
    return {"d": d, "stream": stream, "seed": draw(st.one_of(st.sampled_from([0, 1, 2 ** 31 - 1]), st.integers(0, 10 ** 9))),
            "k": draw(st.integers(2, 6))}


def prop_sampling(case, ctx):
    d = build_dist(case["d"])
    rd = ref_dist(case["d"])
    positive = {e for e, x in rd.items() if x > 0}
    rng = OwnedRandom(case["stream"], tail_seed=case["seed"])
    for i in range(len(case["stream"]) + 2):
        x = ctx.call("C11.sample.raises", lambda: d.sample(rng=rng))
        ctx.check(x in positive, "C11.sample.positive_probability",
                  lambda: f"sample {x!r} has probability {rd.get(x, 0)}; stream {case['stream']}")
    if len(rd) == 1:
        x = d.sample(rng=random.Random(case["seed"]))
        ctx.check(x == list(rd)[0], "C11.sample.one_point")
    r1, r2 = random.Random(case["seed"]), random.Random(case["seed"])
    s1 = [d.sample(rng=r1) for _ in range(50)]
    s2 = [d.sample(rng=r2) for _ in range(50)]
    ctx.check(s1 == s2, "C11.sample.equal_seeds_equal_sequences")
    ctx.check(all(x in positive for x in s1), "C11.sample.positive_probability", lambda: f"{s1}")
    if case["d"]["kind"] in ("dict", "table", "softmax") and len(rd) > 1:
        ks = ctx.call("C11.sample.k_raises", lambda: d.sample(rng=random.Random(case["seed"]), k=case["k"]))
        ctx.check(len(ks) == case["k"] and all(x in positive for x in ks), "C11.sample.k_samples", lambda: f"{ks}")
    # measures that are not normalised (a scaled distribution, a partial mixture): sampling is relative to the total mass -
    # one draw or k draws, also with draws at the very top of [0, 1)
    try:
        half = d * 0.5
    except Exception:
        half = None
    if half is not None and len(rd) > 1:
        stream = list(case["stream"]) + [1 - 2 ** -53, 0.999999, 0.75]
        ks = ctx.call("C11.sample.k_raises", lambda: half.sample(rng=OwnedRandom(stream, tail_seed=case["seed"]), k=len(stream)))
        ctx.check(len(ks) == len(stream) and all(x in positive for x in ks), "C11.sample.k_samples",
                  lambda: f"k draws from 0.5 * d (total mass 1/2): {ks}; positive events {positive}")
        x1 = ctx.call("C11.sample.raises", lambda: half.sample(rng=OwnedRandom([1 - 2 ** -53], tail_seed=case["seed"])))
        ctx.check(x1 in positive, "C11.sample.positive_probability", lambda: f"draw from 0.5 * d at the top of [0,1): {x1!r}")
    ctx.event("kind=" + case["d"]["kind"])
    ctx.nontrivial(len(positive) >= 2)


PROPS = [
    Prop("ops", lambda tier: op_cases(tier), prop_ops, quick=4000, thorough=240000,
         doc="each operation of the calculus on one or two generated distributions vs exact Fractions"),
    Prop("pipeline", lambda tier: pipeline_cases(tier), prop_pipeline, quick=2500, thorough=150000,
         doc="generated operation sequences, msdm object and Fraction twin advanced in lock-step"),
    Prop("sampling", lambda tier: sampling_cases(tier), prop_sampling, quick=2500, thorough=150000,
         doc="sampling with harness-owned random streams and seeds"),
]
