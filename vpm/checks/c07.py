"""C07 — POMDP belief updates follow Bayes' rule and the belief MDP is consistent."""
from fractions import Fraction as F
import numpy as np
from hypothesis import strategies as st

from vpm.core import Prop
from vpm.labels import enc
from vpm.gen.pomdp import pomdp_specs, belief_weights
from vpm.build import build_pomdp
from vpm.ref.pomdp import RefPOMDP

PROPERTY_ID = "C07"
RULE = ("POMDP specs (2-4 states, 1-3 actions, 1-3 observations, integer-weight kernels with zero entries, "
        "action-dependent, explicit/implicit absorbing states) x belief (vertex, edge with zero components, interior "
        "rational point) x every action x every observation incl. impossible ones (all enumerated inside a case). "
        "Oracle: Bayes filter on exact Fractions. Non-trivial: >=3 states or >=3 observations, belief with >=2 "
        "positive components and some observation with predictive probability strictly between 0 and 1; distinct by "
        "spec hash."
        ' Also: raw specs whose absorbing states have successors outside the state list (belief reward only); caller-supplied agent states (support only, reversed order); extreme beliefs matched with entrywise relative tolerance.'
        ' Declared (unsorted) observation lists. Observation alphabets of 257-600 symbols.')
ASSUMPTIONS = ["float results are compared with exact rationals at 1e-12", "beliefs are restricted to msdm's state list "
               "(reachable states)"]
TOL = 1e-12


@st.composite
def filter_cases(draw, tier="quick"):
    """as cases(), plus POMDPs whose action sets depend on the state (only (belief, action) pairs whose action is
    available at every state of the belief's support are evaluated)"""
    if draw(st.integers(0, 3)) > 0:
        return draw(cases(tier))
    spec = draw(pomdp_specs(max_states=4, uniform_actions=False, absorbing_kinds=("n", "n", "n", "abs")))
    return {"pomdp": spec, "belief": draw(belief_weights(spec["n"])), "seq": []}


@st.composite
def cases(draw, tier="quick"):
    spec = draw(st.one_of(pomdp_specs(max_states=5 if tier == "thorough" else 4, extreme=True),
                          pomdp_specs(min_states=4, max_states=6, max_actions=2, max_obs=2,
                                      absorbing_kinds=("n", "abs", "abs", "abs", "abs"))))
    b = draw(belief_weights(spec["n"]))
    from vpm.ref.mdp import closure as _closure
    if spec["n"] >= 4 and draw(st.integers(0, 3)) == 0:
        # several absorbing states inside the initial support (so that beliefs can be split over 3-4 of them)
        from vpm.gen.mdp import normalise_absorbing_successors
        k = draw(st.integers(3, min(4, spec["n"])))
        for s in range(k):
            spec["absorbing"][s] = 1
        spec["p0"] = [[s, draw(st.integers(1, 3))] for s in range(min(spec["n"], k + 1))]
        normalise_absorbing_successors(spec)
    absn = [s for s in sorted(_closure(spec)) if spec["absorbing"][s]]
    if len(absn) >= 2 and draw(st.integers(0, 1)) == 0:
        # all mass on (several) absorbing states, with weights whose float sum is often 1 - ulp
        b = [0] * spec["n"]
        for s in absn:
            b[s] = draw(st.sampled_from([1, 2, 7, 3, 11, 13]))
    seq = draw(st.lists(st.tuples(st.integers(0, spec["m"] - 1), st.integers(0, spec["k"] - 1)), min_size=0, max_size=5))
    return {"pomdp": spec, "belief": b, "seq": [list(x) for x in seq]}


def _widen_observations(args):
    """replace the observation kernel of a small POMDP spec by one over a wide alphabet (257-600 observations, every one
    emitted somewhere), expanded from a drawn seed; the stored / replayed spec is the expanded JSON"""
    import random
    spec, k, oscheme, seed, declared = args
    r = random.Random(seed)
    n, m = spec["n"], spec["m"]
    rows = [(a, ns) for a in range(m) for ns in range(n)]
    obs = [[[] for _ in range(n)] for _ in range(m)]
    owner = {o: r.choice(rows) for o in range(k)}          # every observation is emitted by at least one (a, ns)
    for (a, ns) in rows:
        mine = {o for o, rw in owner.items() if rw == (a, ns)}
        mine |= set(r.sample(range(k), r.choice([1, 3, 40])))
        obs[a][ns] = [[o, r.choice([1, 1, 2, 3, 4])] for o in sorted(mine)]
    spec["k"], spec["obs"] = k, obs
    spec["olabels"] = [enc(o if oscheme == "int" else (5 * o - 2 if oscheme == "int_gap" else f"o{o}")) for o in range(k)]
    spec.pop("explicit_observations", None)
    if declared:
        perm = list(range(k))
        r.shuffle(perm)
        spec["explicit_observations"] = perm
    return spec


@st.composite
def wide_cases(draw, tier="quick"):
    """observation alphabets beyond one byte / two bytes' worth of indices"""
    base = draw(pomdp_specs(min_states=2, max_states=3, max_actions=2, max_obs=1, absorbing_kinds=("n", "n", "n", "abs")))
    spec = _widen_observations((base, draw(st.sampled_from([257, 260, 300, 513, 600])), draw(st.sampled_from(["int", "str", "int_gap"])),
                                draw(st.integers(0, 2 ** 40)), draw(st.integers(0, 3)) == 0))
    return {"pomdp": spec, "belief": draw(belief_weights(spec["n"])), "seq": []}


def _mask_belief(ref, weights):
    w = [x if s in ref.reach else 0 for s, x in enumerate(weights)]
    if not any(w):
        w = [0] * ref.n
        w[min(ref.reach)] = 1
    return w


def prop_filter(case, ctx):
    from msdm.core.distributions import DictDistribution
    spec = case["pomdp"]
    pomdp, view = build_pomdp(spec)
    ref = RefPOMDP(spec)
    S, A, OL = view.S, view.A, view.OL
    sl = list(pomdp.state_list)
    al = list(pomdp.action_list)
    ol = ctx.call("C07.observation_list_raises", lambda: list(pomdp.observation_list))
    om = ctx.call("C07.observation_matrix_raises", lambda: pomdp.observation_matrix)
    w = _mask_belief(ref, case["belief"])
    rb = ref.belief(w)
    tot = sum(w)
    uniform = len({tuple(sorted(a)) for a in view.avail}) == 1
    # with state-dependent action sets the belief lists its support only (the model is not defined for an
    # unavailable action at a zero-probability state)
    b_dict = DictDistribution({S[s]: x / tot for s, x in enumerate(w) if S[s] in sl and (uniform or x > 0)})
    b_vec = np.array([b_dict.get(s, 0.0) for s in sl])

    # observation list / matrix vs spec
    want_obs = {OL[o] for a in range(ref.m) if A[a] in al for ns in ref.reach for o in ref.O[a][ns]}
    if spec.get("explicit_observations") is not None:
        # a declared list is kept as declared (it may name observations that are never emitted)
        declared = [OL[i] for i in spec["explicit_observations"]]
        ctx.check(ol == declared, "C07.declared_observation_list_kept", lambda: f"{ol} vs declared {declared}")
        ctx.event("declared_observation_list")
        want_obs = set(ol) if want_obs <= set(ol) else want_obs
    ctx.check(set(ol) == want_obs and len(ol) == len(set(ol)), "C07.observation_list",
              lambda: f"{ol} vs {want_obs}")
    for ai, a in enumerate(al):
        for nsi, ns in enumerate(sl):
            for oi, o in enumerate(ol):
                want = ref.O[view.aidx[a]][view.sidx[ns]].get(view.oidx[o], F(0))
                ctx.check(abs(om[ai, nsi, oi] - float(want)) <= TOL, "C07.observation_matrix_cell",
                          lambda: f"O[{a},{ns},{o}] = {om[ai, nsi, oi]} expected {want}")

    informative = False
    for a in range(ref.m):
        if A[a] not in al or any(a not in view.avail[s] for s in rb):
            ctx.event("action_unavailable_in_belief_support_skipped")
            continue
        al_a = al.index(A[a])
        # predictive observation distribution
        rod = ref.obs_dist(rb, a)
        pod = ctx.call("C07.predictive_observation_dist_raises", pomdp.predictive_observation_dist, b_dict, A[a])
        pov = ctx.call("C07.predictive_observation_vec_raises", pomdp.predictive_observation_vec, b_vec, al_a)
        ctx.check(abs(sum(pod.values()) - 1) <= 1e-9, "C07.predictive_sums_to_one", lambda: f"{dict(pod)}")
        ctx.check(abs(float(pov.sum()) - 1) <= 1e-9, "C07.predictive_vec_sums_to_one", lambda: f"{pov}")
        for o in range(ref.k):
            want = float(rod.get(o, F(0)))
            got = pod.prob(OL[o])
            ctx.check(abs(got - want) <= TOL, "C07.predictive_observation_dist",
                      lambda: f"a={a} o={o}: {got} expected {want}")
            if OL[o] in ol:
                gv = float(pov[ol.index(OL[o])])
                ctx.check(abs(gv - want) <= TOL, "C07.predictive_observation_vec", lambda: f"a={a} o={o}: {gv} expected {want}")
            else:
                ctx.check(want == 0, "C07.observation_list", lambda: f"possible observation {o} missing from list")
            if 0 < want < 1:
                informative = True
        # posterior for every observation, incl. impossible ones
        for o in range(ref.k):
            rp = ref.posterior(rb, a, o)
            post = ctx.call("C07.state_estimator_raises", pomdp.state_estimator, b_dict, A[a], OL[o])
            if not rp:
                ctx.check(len(post) == 0 or sum(post.values()) == 0, "C07.impossible_observation_gives_empty_posterior",
                          lambda: f"a={a} o={o}: {dict(post)}")
                ctx.event("impossible_observation")
            else:
                ctx.check(abs(sum(post.values()) - 1) <= 1e-9, "C07.posterior_normalised", lambda: f"{dict(post)}")
                for s in range(ref.n):
                    want = float(rp.get(s, F(0)))
                    got = post.prob(S[s])
                    ctx.check(abs(got - want) <= TOL, "C07.posterior_is_bayes",
                              lambda: f"a={a} o={o} state {s}: {got} expected {want} (belief {w})")
            if OL[o] in ol:
                pv = ctx.call("C07.state_estimator_vec_raises", pomdp.state_estimator_vec, b_vec, al_a, ol.index(OL[o]))
                for si, s in enumerate(sl):
                    want = float(rp.get(view.sidx[s], F(0))) if rp else 0.0
                    ctx.check(abs(float(pv[si]) - want) <= TOL, "C07.posterior_vec_is_bayes",
                              lambda: f"a={a} o={o} state {s}: {pv[si]} expected {want}")
    ctx.nontrivial((ref.n >= 3 or ref.k >= 3) and len(rb) >= 2 and informative)


def prop_beliefmdp(case, ctx):
    from msdm.core.pomdp import BeliefMDP
    from msdm.core.pomdp.tabularpomdp import Belief
    spec = case["pomdp"]
    pomdp, view = build_pomdp(spec)
    ref = RefPOMDP(spec)
    S, A = view.S, view.A
    sl = list(pomdp.state_list)
    bm = BeliefMDP(pomdp)
    ctx.check(bm.discount_rate == pomdp.discount_rate, "C07.beliefmdp.discount_rate")
    # initial belief
    init = bm.initial_state_dist()
    items = [(b, p) for b, p in init.items() if p > 0]
    ctx.check(len(items) == 1 and abs(items[0][1] - 1) <= TOL, "C07.beliefmdp.initial_is_point_mass")
    b0 = items[0][0]
    for s, p in zip(b0.states, b0.probs):
        ctx.check(abs(p - float(ref.p0.get(view.sidx[s], F(0)))) <= TOL, "C07.beliefmdp.initial_belief_is_p0",
                  lambda: f"{s}: {p}")
    w = _mask_belief(ref, case["belief"])
    rb = ref.belief(w)
    tot = sum(w)
    b = Belief(tuple(sl), tuple((w[view.sidx[s]] / tot) for s in sl))
    # "absorbing states" of the functional interface: is_absorbing(s) (the belief MDP is not tabular)
    want_abs = all(bool(spec["absorbing"][s]) for s, p in rb.items() if p > 0)
    ctx.check(bool(bm.is_absorbing(b)) == want_abs, "C07.beliefmdp.is_absorbing",
              lambda: f"belief {w}: {bm.is_absorbing(b)} absorbing flags {spec['absorbing']}")
    ctx.check(tuple(bm.actions(b)) == tuple(pomdp.action_list), "C07.beliefmdp.actions")
    branching = False
    for a in range(ref.m):
        nsd = ctx.call("C07.beliefmdp.next_state_dist_raises", bm.next_state_dist, b, A[a])
        ctx.check(abs(sum(nsd.values()) - 1) <= 1e-9, "C07.beliefmdp.transition_normalised", lambda: f"{dict(nsd)}")
        mean = {s: 0.0 for s in sl}
        # reference: group posteriors
        want = {}
        for o, po in ref.obs_dist(rb, a).items():
            post = ref.posterior(rb, a, o)
            key = tuple(post.get(view.sidx[s], F(0)) for s in sl)
            want[key] = want.get(key, F(0)) + po
        if len(want) > 1:
            branching = True
        for nb, p in nsd.items():
            ctx.check(abs(sum(nb.probs) - 1) <= 1e-9, "C07.beliefmdp.successor_belief_normalised", lambda: f"{nb}")
            ctx.check(tuple(nb.states) == tuple(sl), "C07.beliefmdp.successor_states")
            # the absorbing test on beliefs the filter itself produced (probabilities carry rounding error)
            nb_abs = all(bool(spec["absorbing"][view.sidx[s]]) for s, q in zip(nb.states, nb.probs) if q > 0)
            ctx.check(bool(bm.is_absorbing(nb)) == nb_abs, "C07.beliefmdp.is_absorbing_of_successor_belief",
                      lambda: f"successor belief {nb}: is_absorbing={bm.is_absorbing(nb)}, absorbing flags {spec['absorbing']}")
            if nb_abs and sum(1 for q in nb.probs if q > 0) >= 2:
                ctx.event("successor_belief_split_over_absorbing_states")
            for s, q in zip(nb.states, nb.probs):
                mean[s] += p * q
            # matches some reference successor with the right probability
            # (entrywise *relative* closeness: with extreme beliefs two different posteriors can agree to 1e-9 in absolute
            # terms and differ by a factor of two in their tiny entries)
            near = lambda x, y: abs(x - y) <= 1e-9 * max(abs(x), abs(y)) + 1e-300
            match = [k for k in want if all(near(float(x), y) for x, y in zip(k, nb.probs))]
            ctx.check(len(match) >= 1, "C07.beliefmdp.successor_is_a_bayes_posterior", lambda: f"{nb}")
            if match:
                tp = sum(float(want[k]) for k in match)
                same = [p2 for nb2, p2 in nsd.items() if all(near(x, y) for x, y in zip(nb2.probs, nb.probs))]
                ctx.check(abs(sum(same) - tp) <= 1e-9, "C07.beliefmdp.successor_probability",
                          lambda: f"{nb}: {sum(same)} expected {tp}")
        pred = ref.predict(rb, a)
        for s in sl:
            ctx.check(abs(mean[s] - float(pred.get(view.sidx[s], F(0)))) <= 1e-9, "C07.beliefmdp.mean_is_state_prediction",
                      lambda: f"a={a} state {s}: {mean[s]} expected {pred.get(view.sidx[s], 0)}")
        r = bm.reward(b, A[a], None)
        ctx.check(abs(r - float(ref.expected_reward(rb, a))) <= 1e-9, "C07.beliefmdp.reward",
                  lambda: f"a={a}: {r} expected {ref.expected_reward(rb, a)}")
    if want_abs and len(rb) >= 2:
        ctx.event("belief_split_over_absorbing_states")
        if sum(b.probs) != 1.0:
            ctx.event("belief_split_over_absorbing_states_float_sum_not_one")
    ctx.nontrivial(branching and len(rb) >= 2)


@st.composite
def raw_reward_cases(draw, tier="quick"):
    """POMDPs whose absorbing states keep arbitrary successors - also ones that nothing else reaches, i.e. outside the
    inferred state list. Only the belief reward is asserted there: it is a plain expectation over the model's functions."""
    spec = draw(pomdp_specs(min_states=3, max_states=5, absorbing_kinds=("n", "n", "abs", "abs"), normalise=False))
    return {"pomdp": spec, "belief": draw(belief_weights(spec["n"])), "seq": []}


def prop_raw_reward(case, ctx):
    from msdm.core.pomdp import BeliefMDP
    from msdm.core.pomdp.tabularpomdp import Belief
    spec = case["pomdp"]
    pomdp, view = build_pomdp(spec)
    ref = RefPOMDP(spec)
    sl = list(pomdp.state_list)
    bm = BeliefMDP(pomdp)
    w = {view.sidx[s]: case["belief"][view.sidx[s]] for s in sl}
    if not any(w.values()):
        w[view.sidx[sl[0]]] = 1
    tot = sum(w.values())
    rb = {i: F(x, tot) for i, x in w.items() if x > 0}
    b = Belief(tuple(sl), tuple(float(rb.get(view.sidx[s], F(0))) for s in sl))
    outside = False
    for a in range(ref.m):
        r = ctx.call("C07.beliefmdp.reward_raises", bm.reward, b, view.A[a], None)
        want = float(ref.expected_reward(rb, a))
        ctx.check(abs(r - want) <= 1e-9, "C07.beliefmdp.reward", lambda: f"a={a}: {r} expected {want} (belief {b})")
        for s in rb:
            if spec["absorbing"][s] and any(q > 0 and view.S[ns] not in sl for ns, q in ref.T[s][a].items()):
                outside = True
    if outside:
        ctx.event("belief_mass_on_absorbing_state_with_successor_outside_state_list")
    ctx.nontrivial(outside)


def prop_track(case, ctx):
    """ValueBasedTabularPOMDPPolicy.next_agentstate tracks the Bayes posterior along a sequence."""
    from msdm.core.pomdp.alphavectorpolicy import AlphaVectorPolicy
    spec = case["pomdp"]
    pomdp, view = build_pomdp(spec)
    ref = RefPOMDP(spec)
    sl = list(pomdp.state_list)
    pol = AlphaVectorPolicy(pomdp, np.zeros((1, len(sl))))
    ag = pol.initial_agentstate()
    rb = dict(ref.p0)
    # the caller may hand in its own initial agent state (run_on(initial_agentstate=...)): the same belief written over
    # its support only, or in another state order, must be tracked to the same posteriors
    from msdm.core.pomdp.policy import Belief
    form = (len(case["seq"]) + sum(case["belief"])) % 3
    if form:
        pairs = [(s, p) for s, p in zip(ag.states, ag.probs) if p > 0 or form == 2]
        if form == 2:
            pairs = pairs[::-1]
        ag = Belief(tuple(s for s, _ in pairs), tuple(p for _, p in pairs))
        ctx.event("initial_agentstate_support_only" if form == 1 else "initial_agentstate_reversed")

    def whole(ag_, rb_, step):
        got = dict(zip(ag_.states, ag_.probs))
        for i in set(rb_) | {view.sidx[s] for s in got}:
            g = float(got.get(view.S[i], 0.0))
            ctx.check(abs(g - float(rb_.get(i, F(0)))) <= 1e-9, "C07.track.agentstate_is_posterior",
                      lambda: f"step {step}: {ag_} expected {dict((k, float(v)) for k, v in rb_.items())}")
    steps = 0
    for a, o in case["seq"]:
        whole(ag, rb, steps)
        rb = ref.posterior(rb, a, o)
        ag = ctx.call("C07.track.next_agentstate_raises", pol.next_agentstate, ag, view.A[a], view.OL[o])
        if not rb:
            ctx.check(sum(ag.probs) == 0, "C07.track.impossible_observation", lambda: f"{ag}")
            break
        steps += 1
    else:
        whole(ag, rb, steps)
    ctx.nontrivial(steps >= 2 and len(rb) >= 2)


PROPS = [
    Prop("filter", lambda tier: filter_cases(tier), prop_filter, quick=2500, thorough=150000,
         doc="state_estimator / predictive_observation (dict and vec) and observation_matrix vs exact Bayes"),
    Prop("filter_wide", lambda tier: wide_cases(tier), prop_filter, quick=30, thorough=1500,
         doc="the same with 257-600 distinct observations (observation indices beyond one byte)"),
    Prop("beliefmdp", lambda tier: cases(tier), prop_beliefmdp, quick=1500, thorough=90000,
         doc="BeliefMDP transitions, reward, absorbing test, initial belief"),
    Prop("beliefmdp_reward_raw", lambda tier: raw_reward_cases(tier), prop_raw_reward, quick=600, thorough=36000,
         doc="BeliefMDP.reward on POMDPs whose absorbing states have successors outside the inferred state list"),
    Prop("track", lambda tier: cases(tier), prop_track, quick=1500, thorough=90000,
         doc="value-based policy agent state follows the Bayes posterior along action/observation sequences"),
]
