"""C02 — exact policy evaluation solves the Bellman expectation equations."""
import math
import numpy as np
from hypothesis import strategies as st

from vpm.core import Prop, close
from vpm.gen.mdp import mdp_specs, policy_specs, large_mdp_specs, large_policy
from vpm.build import build_mdp, build_tabular_policy
from vpm.ref.mdp import RefMDP

PROPERTY_ID = "C02"
RULE = ("MDP spec (discounted any-sign rewards, or undiscounted with rewards <= 0 incl. closed non-absorbing "
        "classes of zero and of negative reward) x stochastic tabular policy spec (integer weights incl. zeros, "
        "one-hot rows, rows such as 1/6,1/6,4/6 whose float sum is 1-ulp). Oracle: independent linear solve / "
        "closed-class analysis on the spec. Non-trivial: policy stochastic at >=1 non-absorbing state and >=2 "
        "non-absorbing states (for gamma=1 additionally a closed non-absorbing class exists under the policy); "
        "distinct by spec hash."
        ' Also: MDPs of 16-45 states with seed-expanded policies, policy tables of dtype int / bool / float32, None / gapped-integer labels.'
        ' 101-150-state problems.')
ASSUMPTIONS = ["numpy.linalg.solve on <=6x6 systems (<=45x45 in the large class)", "action values at absorbing states are not asserted "
               "(the statement fixes only their state value, 0)"]


# discount rates close to (but below) 1 and other unusual values: the discounted branch must be taken
NEAR_ONE = [0.999, 0.99999, 1 - 1e-7, 0.05, 0.7071]


@st.composite
def cases(draw, tier="quick"):
    big = tier == "thorough"
    spec = draw(st.one_of(mdp_specs("discounted", max_states=6 if big else 5),
                          mdp_specs("discounted", max_states=6 if big else 5, gammas=NEAR_ONE),
                          mdp_specs("discounted", max_states=6 if big else 5, extreme=True),
                          mdp_specs("negative", max_states=6 if big else 5)))
    pol = draw(policy_specs(spec))
    return {"mdp": spec, "policy": pol, "perm_seed": draw(st.integers(0, 5)),
            # the number type of the policy table (a hand-written 0/1 or True/False table, a single-precision one)
            "policy_dtype": draw(st.sampled_from([None, None, "int", "bool", "float32"]))}


def large_cases(tier):
    """tens of states: reachability closures, closed-class detection and the linear solves on realistic sizes"""
    return st.tuples(st.one_of(large_mdp_specs("negative", max_actions=3, max_out=4), large_mdp_specs("negative", max_actions=2, max_out=2),
                               large_mdp_specs("discounted"), large_mdp_specs("discounted", gammas=NEAR_ONE),
                               # beyond the round numbers at which an implementation may switch method (100 states)
                               large_mdp_specs("discounted", min_states=101, max_states=150, max_actions=2, max_out=3),
                               large_mdp_specs("negative", min_states=101, max_states=140, max_actions=2, max_out=2)),
                     st.integers(0, 2 ** 32), st.integers(0, 3)).map(
        lambda t: {"mdp": t[0], "policy": large_policy(t[0], t[1]), "perm_seed": t[2]})


def prop_eval(case, ctx):
    spec, polspec = case["mdp"], case["policy"]
    mdp, view = build_mdp(spec)
    ref = RefMDP(spec)
    policy = build_tabular_policy(spec, polspec, mdp, view, dtype=case.get("policy_dtype"))
    if np.asarray(policy).dtype != np.float64:
        ctx.event("policy_table_dtype=" + str(np.asarray(policy).dtype))
    ps = case.get("perm_seed", 0)
    if ps:
        # the same policy with its own column / row order (as from_dict or a dict-version planner would give)
        import random as _r
        from msdm.core.mdp import TabularPolicy
        sl, al = list(mdp.state_list), list(mdp.action_list)
        rr = _r.Random(ps)
        sl2, al2 = sl[:], al[:]
        rr.shuffle(sl2)
        rr.shuffle(al2)
        arr = np.array(policy)
        data = np.array([[arr[sl.index(s), al.index(a)] for a in al2] for s in sl2], dtype=arr.dtype)
        policy = TabularPolicy.from_state_action_lists(state_list=sl2, action_list=al2, data=data)
        ctx.event("policy_with_own_order")
    res = ctx.call("C02.raises", policy.evaluate_on, mdp)
    n, m, gamma = ref.n, ref.m, ref.gamma
    pi = np.zeros((n, m))
    for s in range(n):
        tot = sum(w for _, w in polspec[s])
        for a, w in polspec[s]:
            pi[s, a] = w / tot
    ev = ref.evaluate(pi)
    states = [view.sidx[s] for s in mdp.state_list]
    scale = 1 + max([abs(v) for v in ev["V"] if math.isfinite(v)] + [0.0])
    # the discounted solve is conditioned like 1/(1-gamma)
    tol = max(1e-8, 1e-13 / (1 - gamma) if gamma < 1 else 0) * scale
    for s in states:
        v = float(res.state_value[view.S[s]])
        rv = float(ev["V"][s])
        if ref.absorbing[s]:
            ctx.check(v == 0, "C02.absorbing_value_zero", lambda: f"state {s}: {v}")
            continue
        if math.isinf(rv):
            ctx.check(v == rv, "C02.value_minus_inf_iff_negative_class_reachable",
                      lambda: f"state {s}: msdm {v}, reference -inf (policy reaches a negative closed class)")
        else:
            ctx.check(math.isfinite(v), "C02.value_minus_inf_iff_negative_class_reachable",
                      lambda: f"state {s}: msdm {v}, reference finite {rv}")
            ctx.check(abs(v - rv) <= tol, "C02.state_value", lambda: f"state {s}: msdm {v} reference {rv}")
        for a in range(m):
            q = float(res.action_value[view.S[s]][view.A[a]]) if view.A[a] in mdp.action_list else None
            if q is None:
                continue
            if not ref.avail[s, a]:
                ctx.check(q == float("-inf"), "C02.unavailable_action_minus_inf", lambda: f"Q[{s},{a}]={q}")
            else:
                rq = float(ev["Q"][s, a])
                ok = (q == rq) if math.isinf(rq) else (math.isfinite(q) and abs(q - rq) <= tol)
                ctx.check(ok, "C02.action_value", lambda: f"Q[{s},{a}]: msdm {q} reference {rq}")
    for s in states:
        if ref.absorbing[s]:
            for a in range(m):
                if view.A[a] in mdp.action_list and not ref.avail[s, a]:
                    q = float(res.action_value[view.S[s]][view.A[a]])
                    ctx.check(q == float("-inf"), "C02.unavailable_action_minus_inf", lambda: f"Q[{s},{a}]={q}")
    # occupancy
    # (normwise, like the values: a linear solve bounds the error relative to the largest entry of the solution)
    oscale = 1 + max([abs(float(ev["occupancy"][s])) for s in states if math.isfinite(float(ev["occupancy"][s]))] + [0.0])
    for s in states:
        o = float(res.state_occupancy[view.S[s]])
        ro = float(ev["occupancy"][s])
        if math.isinf(ro):
            ctx.check(o == ro, "C02.occupancy_inf_at_recurrent", lambda: f"state {s}: msdm {o} reference inf")
        else:
            ctx.check(math.isfinite(o) and abs(o - ro) <= max(1e-8, 1e-13 / (1 - gamma) if gamma < 1 else 0) * oscale, "C02.occupancy",
                      lambda: f"state {s}: msdm {o} reference {ro}")
    iv = float(res.initial_value)
    riv = ev["initial_value"]
    ok = (iv == riv) if math.isinf(riv) else (math.isfinite(iv) and abs(iv - riv) <= tol)
    ctx.check(ok, "C02.initial_value", lambda: f"msdm {iv} reference {riv}")

    # self-consistency of msdm's own output (Bellman expectation residual), finite part
    if gamma < 1.0:
        for s in states:
            if ref.absorbing[s]:
                continue
            v = float(res.state_value[view.S[s]])
            acc = 0.0
            for a in range(m):
                if pi[s, a] > 0:
                    acc += pi[s, a] * float(res.action_value[view.S[s]][view.A[a]])
            ctx.check(abs(v - acc) <= tol, "C02.bellman_expectation_residual", lambda: f"state {s}: V={v} sum pi*Q={acc}")

    nonabs = [s for s in states if not ref.absorbing[s]]
    stoch = any(sum(1 for a in range(m) if pi[s, a] > 0) > 1 for s in nonabs)
    nt = stoch and len(nonabs) >= 2
    if gamma == 1.0:
        has_class = bool(ev["recurrent_nonabsorbing"][states].any()) if states else False
        if has_class:
            ctx.event("closed_nonabsorbing_class")
        if ev["neg_inf"].any():
            ctx.event("minus_inf_somewhere")
        nt = nt and has_class
    if any(abs(sum(pi[s]) - 1.0) > 0 for s in nonabs):
        ctx.event("policy_row_float_sum_not_one")
    ctx.nontrivial(nt)


PROPS = [Prop("evaluate", lambda tier: cases(tier), prop_eval, quick=8000, thorough=450000,
              doc="TabularPolicy.evaluate_on vs independent linear-solve / closed-class oracle"),
         Prop("evaluate_large", large_cases, prop_eval, quick=600, thorough=40000,
              doc="the same on MDPs with 16-45 states (sparse / dense / ragged action sets, uniform / mixed / one-hot policies)")]
