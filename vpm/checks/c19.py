"""C19 — entropy-regularised policy iteration converges to the soft Bellman fixed point."""
import itertools
import math
import numpy as np
from hypothesis import strategies as st

from vpm.core import Prop
from vpm.gen.mdp import mdp_specs
from vpm.build import build_mdp
from vpm.ref.mdp import RefMDP

PROPERTY_ID = "C19"
RULE = ("Row-stochastic float64 transition tensors (2-5 states quick / 6 thorough, 1-4 actions) from integer weights "
        "incl. zeros, integer reward tensors incl. broadcast shapes (1|S,1|A,1|S), gamma in {.3,.6,.9,.95}, entropy "
        "weight in {1e-3..10} as Python scalar or per-state float64 tensor, priors on the open simplex of shape (1,A) "
        "or (S,A) or None (uniform), force_nonzero_probabilities on/off; plus the planner wrapper on MDP specs with "
        "state-dependent action sets. Oracle: the soft Bellman relations recomputed in float64 numpy, and Q* by "
        "deterministic-policy enumeration for the small-weight bracket. Only converged runs are asserted. "
        "Non-trivial: >=2 actions whose action values differ and a policy that is neither near-uniform nor one-hot "
        "at some state; distinct by spec hash."
        ' Also: iteration budgets of 1-5, 26-45 states x 4-5 actions at entropy weights down to 0.001, caller-supplied starting policies with exact zeros, planner weights 0.01 / 0.001.')
ASSUMPTIONS = ["policy fixed-point tolerance follows the algorithm's own stop rule (isclose rtol 1e-5) plus the float32 "
               "rounding of a scalar entropy weight", "non-converged runs are counted, not asserted"]


@st.composite
def tensor_cases(draw, tier="quick"):
    big = tier == "thorough"
    spec = draw(mdp_specs("discounted", min_states=2, max_states=6 if big else 5, max_actions=4, uniform_actions=True,
                          allow_explicit=False, absorbing_kinds=("n",), gammas=[0.3, 0.6, 0.9, 0.95], multi_p0=False))
    n, m = spec["n"], spec["m"]
    shape = [draw(st.sampled_from([1, n])), draw(st.sampled_from([1, m])), draw(st.sampled_from([1, n]))]
    if draw(st.booleans()):
        shape = [n, m, n]
    R = [[[draw(st.integers(-3, 3)) for _ in range(shape[2])] for _ in range(shape[1])] for _ in range(shape[0])]
    wkind = draw(st.sampled_from(["scalar", "scalar", "per_state"]))
    ws = [1e-3, 1e-2, 0.1, 1.0, 10.0, 0.5, 3.0]
    if wkind == "scalar":
        w = draw(st.sampled_from(ws + [1, 2]))
    else:
        w = [draw(st.sampled_from(ws)) for _ in range(n)]
    pk = draw(st.sampled_from(["none", "row", "full"]))
    prior = None
    if pk == "row":
        prior = [[draw(st.integers(1, 5)) for _ in range(m)]]
    elif pk == "full":
        prior = [[draw(st.integers(1, 5)) for _ in range(m)] for _ in range(n)]
    return {"mdp": spec, "R": R, "w": w, "prior": prior, "force_nonzero": draw(st.booleans()),
            "warm_start": draw(st.one_of(st.none(), st.none(), st.integers(0, 11))),
            "iters": draw(st.sampled_from([2000, 2000, 2000, 1, 2, 3, 5]))}


def lse(x):
    mx = np.max(x, axis=-1, keepdims=True)
    return (mx + np.log(np.sum(np.exp(x - mx), axis=-1, keepdims=True)))[..., 0]


def optimal_q(T, R, gamma):
    n, m, _ = T.shape
    SR = (T * R).sum(-1)
    best = np.full(n, -np.inf)
    idx = np.arange(n)
    pols = np.array(list(itertools.product(range(m), repeat=n)))
    P = T[idx[None, :], pols, :]
    r = SR[idx[None, :], pols]
    V = np.linalg.solve(np.eye(n)[None] - gamma * P, r[..., None])[..., 0].max(axis=0)
    return SR + gamma * (T @ V)


def check_fixed_point(ctx, tag, T, R, gamma, w_vec, w_scalar_f32, pi0, pi, q, v, avail=None):
    n, m, _ = T.shape
    scale = 1 + float(np.max(np.abs(q[np.isfinite(q)]))) if np.isfinite(q).any() else 1.0
    # (a) q is the one-step look-ahead of v
    want_q = (T * (R + gamma * v[None, None, :])).sum(-1)
    ctx.check(np.allclose(q, want_q, rtol=0, atol=1e-9 * scale), f"C19.{tag}.q_is_lookahead_of_v",
              lambda: f"max diff {np.max(np.abs(q - want_q))}")
    logits = q / w_vec[:, None] + np.log(pi0)
    if avail is not None:
        logits = np.where(avail, logits, -np.inf)
    mx = np.max(logits, axis=1, keepdims=True)
    sm = np.exp(logits - mx)
    sm = sm / sm.sum(1, keepdims=True)
    f32 = 2 * 6e-8 * np.max(np.abs(q) / w_vec[:, None]) if w_scalar_f32 else 0.0
    tol_pi = 2e-5 + 1e-4 * sm + 3 * f32
    ctx.check(bool((np.abs(pi - sm) <= tol_pi).all()), f"C19.{tag}.policy_is_prior_weighted_softmax",
              lambda: f"max |pi - softmax| = {np.max(np.abs(pi - sm))} (allowance {np.max(tol_pi)})")
    ctx.check(bool(np.allclose(pi.sum(1), 1, atol=1e-6)), f"C19.{tag}.policy_rows_sum_to_one")
    want_v = w_vec * lse(logits)
    tol_v = 1e-6 * scale + 1e-4 * np.max(w_vec) + 3 * f32 * np.max(w_vec)
    ctx.check(bool((np.abs(v - want_v) <= tol_v).all()), f"C19.{tag}.v_is_prior_weighted_logsumexp",
              lambda: f"max |v - w*lse| = {np.max(np.abs(v - want_v))} tol {tol_v}")
    return sm


def run_tensor(ctx, T, R, gamma, w, prior, force_nonzero, tag, iters=2000, warm=None):
    import torch
    from msdm.algorithms.entregpolicyiteration import entropy_regularized_policy_iteration
    kw = {}
    if warm is not None:
        # a caller-supplied starting policy: deterministic (one action per state) or spread over a subset of the actions
        n_, m_ = T.shape[0], T.shape[1]
        ip = np.zeros((n_, m_))
        for s_ in range(n_):
            k_ = (warm + s_) % m_
            ip[s_, k_] = 1.0
            if warm % 3 == 0 and m_ >= 2:
                ip[s_, (k_ + 1) % m_] = 1.0
        kw["initial_policy"] = torch.from_numpy(ip / ip.sum(1, keepdims=True))
    if prior is not None:
        p = np.array(prior, dtype=float)
        p = p / p.sum(1, keepdims=True)
        kw["policy_prior"] = torch.from_numpy(p)
    ew = w if not isinstance(w, list) else torch.tensor(w, dtype=torch.float64)
    res = ctx.call(f"C19.{tag}.raises", entropy_regularized_policy_iteration,
                   transition_matrix=torch.from_numpy(T.copy()), reward_matrix=torch.from_numpy(np.array(R, dtype=float)),
                   discount_rate=gamma, entropy_weight=ew, n_planning_iters=iters,
                   force_nonzero_probabilities=force_nonzero, **kw)
    return res


def prop_tensor(case, ctx):
    spec = case["mdp"]
    ref = RefMDP(spec)
    T, gamma = ref.T, ref.gamma
    n, m = ref.n, ref.m
    Rb = np.array(case["R"], dtype=float)
    R = np.broadcast_to(Rb, (n, m, n)).copy()
    w = case["w"]
    res = run_tensor(ctx, T, case["R"], gamma, w, case["prior"], case["force_nonzero"], "tensor", iters=case.get("iters", 2000),
                     warm=case.get("warm_start"))
    if case.get("warm_start") is not None:
        ctx.event("warm_start_with_zero_entries")
    if case.get("iters", 2000) < 10:
        ctx.event("tiny_iteration_budget" + ("_reports_converged" if res.converged else ""))
    if not res.converged:
        ctx.event("not_converged")
        return
    pi = res.policy.detach().numpy().astype(float)
    q = res.action_values.detach().numpy().astype(float)
    v = res.state_values.detach().numpy().astype(float)
    scalar = not isinstance(w, list)
    w_vec = np.full(n, float(np.float32(w))) if scalar else np.array(w, dtype=float)
    if case["prior"] is None:
        pi0 = np.full((n, m), 1.0 / m)
    else:
        p = np.array(case["prior"], dtype=float)
        p = p / p.sum(1, keepdims=True)
        pi0 = np.broadcast_to(p, (n, m))
    sm = check_fixed_point(ctx, "tensor", T, R, gamma, w_vec, scalar, pi0, pi, q, v)
    # small-weight bracket with a uniform prior
    if case["prior"] is None:
        qstar = optimal_q(T, R, gamma)
        wmax = float(np.max(w_vec))
        slack = gamma * wmax * math.log(m) / (1 - gamma) if m > 1 else 0.0
        tol = 1e-6 * (1 + float(np.max(np.abs(qstar))))
        ctx.check(bool((q <= qstar + tol).all()), "C19.tensor.soft_q_exceeds_optimal_q",
                  lambda: f"max(q - Q*) = {np.max(q - qstar)}")
        ctx.check(bool((q >= qstar - slack - tol).all()), "C19.tensor.soft_q_within_bracket_of_optimal_q",
                  lambda: f"max(Q* - q) = {np.max(qstar - q)} allowed {slack}")
        if scalar and m > 1:
            # monotone in the weight: a smaller weight gives larger soft values
            w2 = float(w) / 4
            res2 = run_tensor(ctx, T, case["R"], gamma, w2, None, case["force_nonzero"], "tensor")
            if res2.converged:
                v2 = res2.state_values.detach().numpy().astype(float)
                ctx.check(bool((v2 >= v - 1e-6 * (1 + np.abs(v))).all()), "C19.tensor.values_monotone_in_weight",
                          lambda: f"w={w}: {v}; w={w2}: {v2}")
                q2 = res2.action_values.detach().numpy().astype(float)
                slack2 = gamma * w2 * math.log(m) / (1 - gamma)
                ctx.check(bool((q2 >= qstar - slack2 - tol).all()) and bool((q2 <= qstar + tol).all()),
                          "C19.tensor.smaller_weight_tighter_bracket", lambda: f"{np.max(qstar - q2)} vs {slack2}")
    diff = bool((np.max(q, 1) - np.min(q, 1) > 1e-6).any()) if m > 1 else False
    mid = bool(((sm.max(1) < 0.999) & (sm.max(1) > 1.0 / m + 1e-3)).any()) if m > 1 else False
    ctx.event("weight=" + ("scalar" if scalar else "per_state"))
    ctx.event("prior=" + ("none" if case["prior"] is None else ("row" if len(case["prior"]) == 1 else "full")))
    ctx.nontrivial(diff and mid)


@st.composite
def planner_cases(draw, tier="quick"):
    spec = draw(mdp_specs("discounted", min_states=2, max_states=5, max_actions=3, allow_explicit=True,
                          absorbing_kinds=("n", "n", "n", "imp"), gammas=[0.3, 0.6, 0.9]))
    return {"mdp": spec, "w": draw(st.sampled_from([0.1, 0.5, 1, 1.0, 2.0, 10, 0.01, 0.001]))}


def planner_large_cases(tier):
    """more than 100 state-action pairs, low entropy weights (the last sweeps only move a few entries)"""
    from vpm.gen.mdp import large_mdp_specs
    return st.tuples(large_mdp_specs("discounted", min_states=26, max_states=45, min_actions=4, max_actions=5, max_out=3, gammas=[0.9, 0.95, 0.8]),
                     st.sampled_from([0.001, 0.003, 0.01, 0.01, 0.1, 1.0])).map(lambda t: {"mdp": t[0], "w": t[1]})


def prop_planner(case, ctx):
    from msdm.algorithms.entregpolicyiteration import EntropyRegularizedPolicyIteration
    spec = case["mdp"]
    mdp, view = build_mdp(spec)
    ref = RefMDP(spec)
    res = ctx.call("C19.planner.raises", EntropyRegularizedPolicyIteration(entropy_weight=case["w"], iterations=3000).plan_on, mdp)
    if not res.converged:
        ctx.event("not_converged")
        return
    sl = [view.sidx[s] for s in mdp.state_list]
    al = [view.aidx[a] for a in mdp.action_list]
    T = ref.T[np.ix_(sl, al, sl)]
    R = ref.R[np.ix_(sl, al, sl)]
    avail = ref.avail[np.ix_(sl, al)]
    n, m = len(sl), len(al)
    pi = np.array([[float(res.policy[s][a]) for a in mdp.action_list] for s in mdp.state_list])
    q = np.array([[float(res.Q[s][a]) for a in mdp.action_list] for s in mdp.state_list])
    v = np.array([float(res.V[s]) for s in mdp.state_list])
    w_vec = np.full(n, float(np.float32(case["w"])))
    pi0 = avail / avail.sum(1, keepdims=True)
    pi0 = np.where(avail, pi0, 1.0)  # log(1)=0 placeholder; masked below
    sm = check_fixed_point(ctx, "planner", T, R, ref.gamma, w_vec, True, pi0, pi, q, v, avail=avail)
    ctx.check(bool((pi[~avail] <= 1e-30).all()), "C19.planner.mass_on_unavailable_action", lambda: f"{pi[~avail]}")
    iv = sum(float(res.V[view.S[s]]) * p for s, p in view.p0 if p > 0)
    ctx.check(abs(float(res.initial_value) - iv) <= 1e-9 * (1 + abs(iv)), "C19.planner.initial_value_expectation")
    ctx.nontrivial(bool((avail.sum(1) >= 2).any()) and n >= 2)


@st.composite
def reuse_cases(draw, tier="quick"):
    """two MDPs with the same number of states / actions but different action availability"""
    a = draw(mdp_specs("discounted", min_states=3, max_states=4, max_actions=3, allow_explicit=False,
                       absorbing_kinds=("n",), gammas=[0.3, 0.6, 0.9], schemes=("int",)))
    b = draw(mdp_specs("discounted", min_states=a["n"], max_states=a["n"], max_actions=3, allow_explicit=False,
                       absorbing_kinds=("n",), gammas=[0.3, 0.6, 0.9], schemes=("int",)))
    return {"a": a, "b": b, "w": draw(st.sampled_from([0.5, 1, 2.0]))}


def prop_reuse(case, ctx):
    from msdm.algorithms.entregpolicyiteration import EntropyRegularizedPolicyIteration
    from vpm.checks.reuse import check_reuse
    ma, _ = build_mdp(case["a"])
    mb, _ = build_mdp(case["b"])
    make = lambda: EntropyRegularizedPolicyIteration(entropy_weight=case["w"], iterations=3000)
    check_reuse(ctx, "C19.reuse", make, lambda pl, m: pl.plan_on(m),
                lambda r, m: {"V": {s: float(v) for s, v in r.V.items()}, "pi": np.asarray(r.policy), "conv": bool(r.converged)}, ma, mb)
    ctx.nontrivial(case["a"]["trans"] != case["b"]["trans"])


PROPS = [
    Prop("reuse", lambda tier: reuse_cases(tier), prop_reuse, quick=200, thorough=12000,
         doc="a planner object reused on a second MDP of the same shape gives the same result as a fresh one"),
    Prop("tensor", lambda tier: tensor_cases(tier), prop_tensor, quick=1500, thorough=90000,
         doc="entropy_regularized_policy_iteration on tensors: soft Bellman relations and small-weight bracket"),
    Prop("planner", lambda tier: planner_cases(tier), prop_planner, quick=600, thorough=36000,
         doc="EntropyRegularizedPolicyIteration.plan_on on MDP specs with state-dependent action sets"),
    Prop("planner_large", planner_large_cases, prop_planner, quick=120, thorough=6000,
         doc="the same on MDPs with 26-45 states x 4-5 actions (>100 state-action pairs) at low entropy weights"),
]
