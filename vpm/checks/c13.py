"""C13 — a fixed seed makes every randomised component reproducible and isolated."""
import atexit
import json
import os
import random
import subprocess
import sys
import numpy as np
from hypothesis import strategies as st

from vpm.core import Prop, HarnessError, derive_seed, VERIF_ROOT, REPO_ROOT
from vpm.gen.mdp import mdp_specs, policy_specs
from vpm.gen.pomdp import pomdp_specs
from vpm.checks.c05 import graph_specs
from vpm.checks.c13_scenarios import run_scenario

PROPERTY_ID = "C13"
SHARDS = {"quick": 4, "thorough": 8}
RULE = ("Scenario = component in {LAO*, LRTDP, A* (random tie-break), BFS (randomised order), Q / SARSA / expected "
        "SARSA / double-Q, R-MAX, bounded policy iteration, gradient ascent, semi-MDP option outcomes, implicit "
        "distributions, MDP roll-out, MDP Monte-Carlo evaluation, POMDP roll-out} x a small generated problem of the "
        "right class with int- or string-labelled states / actions / option names and multi-state initial "
        "distributions x parameters x seed in {0,1,2^31-1,...}. Three relations on canonical digests (floats at 11 "
        "significant digits, mappings sorted): (1) same digest on every run in one process whatever perturbations "
        "of the global random / numpy / torch generators come between; (2) the three global generators are "
        "bit-identical before and after a seeded run; (3) three extra interpreter processes with different "
        "PYTHONHASHSEED return the same digest. Non-trivial: a scenario whose digest changes when the seed is "
        "changed (measured); distinct by spec hash."
        ' Also: numpy-integer seeds, conditioned implicit distributions (boolean / 0-1 / fractional predicates), repeats on one shared problem object whose actions() hands out stored lists.'
        ' One-element Uniform- / DictDistributions in the search scenarios.')
ASSUMPTIONS = ["hash randomisation is sampled by four interpreter processes per shard (PYTHONHASHSEED 0 and three values "
               "derived from VERIF_SEED)", "last-bit float differences (beyond 11 significant digits) are not counted"]

COMPONENTS = ["laostar", "lrtdp", "astar", "bfs", "td", "rmax", "bpi", "ga", "semimdp", "implicit", "mdp_rollout",
              "mdp_evaluate", "pomdp_rollout"]
SEEDS = st.one_of(st.sampled_from([0, 1, 2 ** 31 - 1]), st.integers(0, 10 ** 6))
LABELS = ("int", "str", "str")


@st.composite
def scenarios(draw, component=None):
    comp = component or draw(st.sampled_from(COMPONENTS))
    scn = {"component": comp, "seed": draw(SEEDS), "params": {}}
    P = scn["params"]
    if comp in ("laostar",):
        scn["mdp"] = draw(mdp_specs(draw(st.sampled_from(["discounted", "ssp"])), min_states=3, max_states=5, allow_explicit=False,
                                    schemes=LABELS, absorbing_kinds=("n", "n", "n", "n", "abs")))
        P.update(slack=draw(st.sampled_from([0.5, 1.0, 3.0])), rao=draw(st.booleans()), rno=draw(st.booleans()))
    elif comp in ("lrtdp", "td", "rmax", "mdp_rollout", "mdp_evaluate", "semimdp"):
        scn["mdp"] = draw(mdp_specs("dproper", min_states=3, max_states=5, allow_explicit=False, schemes=LABELS,
                                    uniform_actions=(comp == "rmax"), gammas=[0.5, 0.8, 0.9],
                                    absorbing_kinds=("n", "n", "n", "n", "abs")))
        if comp == "lrtdp":
            P.update(slack=draw(st.sampled_from([0.5, 1.0, 3.0])), rao=draw(st.booleans()), margin=draw(st.sampled_from([1e-1, 1e-2])))
        elif comp == "td":
            P.update(learner=draw(st.sampled_from(["QLearning", "SARSA", "ExpectedSARSA", "DoubleQLearning"])),
                     episodes=draw(st.integers(2, 6)), step_size=draw(st.sampled_from([0.1, 0.5])),
                     rand_choose=draw(st.sampled_from([0.1, 0.5, 1])), softmax_temp=draw(st.sampled_from([0.0, 1.0])))
        elif comp == "rmax":
            P.update(episodes=draw(st.integers(2, 6)), m=draw(st.integers(1, 3)))
        elif comp == "semimdp":
            from vpm.checks.c15 import option_specs
            opts = [draw(option_specs(scn["mdp"])) for _ in range(draw(st.integers(1, 2)))]
            for i, o in enumerate(opts):
                o["max_steps"] = 60
                o["name"] = None if o["name"] is None else o["name"] + str(i)  # unnamed options stay unnamed
            P.update(options=opts, n_sims=draw(st.integers(2, 8)))
        else:
            P.update(max_steps=draw(st.integers(3, 10)), n=draw(st.integers(2, 6)))
    if "mdp" in scn:
        # a model that hands out its own stored list objects (as QuickMDP(actions=[...]) does): a run must not re-order them
        scn["mdp"]["repr"]["actions"] = draw(st.sampled_from(["tuple", "shared_list", "shared_list", "list"]))
    if comp in ("astar", "bfs"):
        g = draw(graph_specs("quick"))
        g["rep"] = draw(st.sampled_from(["next_state", "det", "dsp", "dict1", "unif1", "unif1"]))
        g["init_rep"] = draw(st.sampled_from(["initial_state", "det", "dict1", "unif1"]))
        scn["graph"] = g
        P.update(rao=True)
    elif comp in ("bpi", "ga", "pomdp_rollout"):
        scn["pomdp"] = draw(pomdp_specs(max_states=3, max_actions=2, max_obs=2, schemes=LABELS,
                                        absorbing_kinds=("n", "n", "n", "n", "abs")))
        if comp in ("bpi", "ga"):
            scn["seed_kind"] = draw(st.sampled_from(["int", "int", "int64", "uint32", "int32"]))
        if comp == "bpi":
            P.update(nodes=draw(st.integers(1, 2)), iterations=draw(st.integers(1, 3)))
        elif comp == "ga":
            P.update(nodes=draw(st.integers(1, 3)), iterations=draw(st.integers(1, 8)))
        else:
            P.update(max_steps=draw(st.integers(2, 8)))
    elif comp == "implicit":
        P.update(events=draw(st.lists(st.sampled_from(["a", "b", "cc", "ddd", 1, 2, 30]), min_size=2, max_size=5, unique=True)),
                 n=draw(st.integers(5, 30)), pred=draw(st.sampled_from(["bool", "int", "frac", "frac0"])))
    return scn


@st.composite
def cases(draw, tier="quick", component=None):
    scn = draw(scenarios(component))
    ops = draw(st.lists(st.tuples(st.sampled_from(["random", "numpy", "torch", "all"]), st.integers(0, 2 ** 31 - 1),
                                  st.integers(0, 5)), min_size=1, max_size=3))
    return {"scenario": scn, "perturbations": [list(o) for o in ops]}


# ---------------------------------------------------------------- hash-seed workers
_WORKERS = []


def _start_workers():
    if _WORKERS:
        return _WORKERS
    base = int(os.environ.get("VERIF_SEED", "1"))
    seeds = [str(1 + derive_seed(base, "hashseed", i) % 4294967290) for i in range(3)]
    env = dict(os.environ)
    env["PYTHONPATH"] = os.pathsep.join([VERIF_ROOT, REPO_ROOT, env.get("PYTHONPATH", "")])
    for hs in seeds:
        e = dict(env)
        e["PYTHONHASHSEED"] = hs
        p = subprocess.Popen([sys.executable, "-W", "ignore", "-m", "vpm.checks.c13_worker"], stdin=subprocess.PIPE,
                             stdout=subprocess.PIPE, stderr=subprocess.DEVNULL, env=e, cwd=VERIF_ROOT, text=True, bufsize=1)
        _WORKERS.append((hs, p))
    for hs, p in _WORKERS:
        line = p.stdout.readline()
        if "ready" not in line:
            raise HarnessError(f"hash-seed worker {hs} did not start: {line!r}")
    atexit.register(_stop_workers)
    return _WORKERS


def _stop_workers():
    for hs, p in _WORKERS:
        try:
            p.stdin.close()
            p.terminate()
        except Exception:
            pass
    _WORKERS.clear()


def _ask(p, scn):
    p.stdin.write(json.dumps(scn) + "\n")
    p.stdin.flush()
    line = p.stdout.readline()
    if not line:
        raise HarnessError("hash-seed worker died")
    return json.loads(line)


def _global_states():
    import torch
    r = random.getstate()
    n = np.random.get_state()
    t = torch.random.get_rng_state()
    return (repr(r), (n[0], n[1].tobytes(), n[2], n[3], n[4]), t.numpy().tobytes())


def _perturb(kind, seed, draws):
    import torch
    if kind in ("random", "all"):
        random.seed(seed)
        for _ in range(draws):
            random.random()
    if kind in ("numpy", "all"):
        np.random.seed(seed % (2 ** 32))
        for _ in range(draws):
            np.random.rand()
    if kind in ("torch", "all"):
        torch.manual_seed(seed)
        for _ in range(draws):
            torch.rand(1)


def prop_scenario(case, ctx):
    scn = case["scenario"]
    comp = scn["component"]
    shared = "mdp" in scn and scn["mdp"].get("repr", {}).get("actions") == "shared_list"
    cache = {} if (shared or (scn["seed"] + len(case["perturbations"])) % 2) else None     # repeats on one problem object
    if cache is not None:
        ctx.event("repeats_on_the_same_problem_object")
    d0 = ctx.call(f"C13.{comp}.raises", run_scenario, scn, cache)
    runs = 1
    for kind, seed, draws in case["perturbations"]:
        _perturb(kind, seed, draws)
        before = _global_states()
        d = ctx.call(f"C13.{comp}.raises", run_scenario, scn, cache)
        after = _global_states()
        runs += 1
        ctx.check(d == d0, f"C13.{comp}.result_depends_on_global_generators_or_run",
                  lambda: f"run {runs} after perturbing '{kind}' differs from the first run:\n first {d0[:300]}\n later {d[:300]}")
        names = ("random", "numpy", "torch")
        changed = [names[i] for i in range(3) if before[i] != after[i]]
        ctx.check(not changed, f"C13.{comp}.disturbs_global_generator", lambda: f"global generator(s) {changed} advanced by a seeded run")
    for hs, p in _start_workers():
        ans = _ask(p, scn)
        if "error" in ans:
            ctx.viol(f"C13.{comp}.raises_in_other_process", f"PYTHONHASHSEED={hs}: {ans['error']}")
            continue
        ctx.check(ans["digest"] == d0, f"C13.{comp}.result_depends_on_hash_seed",
                  lambda: f"PYTHONHASHSEED={hs} gives a different result:\n here  {d0[:300]}\n there {ans['digest'][:300]}")
    other = dict(scn, seed=scn["seed"] + 1)
    try:
        d_other = run_scenario(other)
    except Exception:
        d_other = d0
    ctx.event("component=" + comp)
    strings = any(isinstance(x, str) for key in ("mdp", "pomdp") if key in scn for x in scn[key]["slabels"])
    if strings:
        ctx.event("string_labels")
    ctx.nontrivial(d_other != d0)


def _mk(component):
    return lambda tier: cases(tier, component)


_QUICK = {"laostar": 30, "lrtdp": 30, "astar": 40, "bfs": 40, "td": 40, "rmax": 30, "bpi": 12, "ga": 16, "semimdp": 30,
          "implicit": 30, "mdp_rollout": 40, "mdp_evaluate": 30, "pomdp_rollout": 40}
PROPS = [Prop(c, _mk(c), prop_scenario, quick=_QUICK[c], thorough=_QUICK[c] * 40,
              doc=f"{c}: same digest across runs / global-generator perturbations / hash seeds; global generators untouched")
         for c in COMPONENTS]
