"""C10 — TD learners' Q-tables are exactly their update rule folded over the experience."""
import copy
import math
from hypothesis import strategies as st

from vpm.core import Prop, Inconclusive
from vpm.gen.mdp import mdp_specs
from vpm.build import build_mdp
from vpm.ref.mdp import RefMDP

PROPERTY_ID = "C10"
FUZZ = {"props": ["td"], "quick": [2, 800], "thorough": [8, 30000]}
RULE = ("Episodic MDP specs (every policy reaches an explicitly absorbing state w.p. 1; gamma<1 or =1; "
        "state-dependent action sets, stochastic transitions, rewards of either sign, absorbing initial states) x "
        "learner in {Q, SARSA, expected SARSA, double Q} x step size in {0,.1,.25,.5,1} x exploration rate x softmax "
        "temperature incl. 0 x constant or per-action callable initial Q x 1-8 episodes x seed. A recording event "
        "listener copies every step; the reference folds the published update rule over that history. Non-trivial: "
        ">=2 episodes, some state visited twice and some update with non-zero TD error; distinct by spec hash."
        ' Also: low temperatures x cost-to-go magnitudes (|q/temp| up to 800), callable initial_q that is infinite / nan / undefined at absorbing states.')
ASSUMPTIONS = ["the experience is observed through the public event_listener_class hook",
               "float comparison of folded tables at 1e-9"]

LEARNERS = ["QLearning", "SARSA", "ExpectedSARSA", "DoubleQLearning"]
MAX_STEPS = 20000


@st.composite
def cases(draw, tier="quick"):
    flav = draw(st.sampled_from(["ssp", "dproper", "dproper"]))
    rv = draw(st.sampled_from([None, None, None, [0.1, 0.2, 0.3, -0.1, 0.7], [1e-10, 2e-10, -1e-10, 0]]))
    spec = draw(mdp_specs(flav, min_states=2, max_states=6 if tier == "thorough" else 5, allow_explicit=False,
                          absorbing_kinds=("n", "n", "n", "n", "abs"), reward_values=rv))
    iq = draw(st.one_of(st.sampled_from([0, 0.0, 3, -2.5, 1.5]),
                        st.lists(st.sampled_from([-2.0, 0.0, 1.0, 3.0, 0.5]), min_size=2, max_size=3)))
    temp = draw(st.sampled_from([0, 0.0, 0.5, 2.0]))
    if draw(st.integers(0, 5)) == 0:
        # low temperature x cost-to-go magnitudes: |q / temp| in the hundreds (exp over- / underflows unless shifted),
        # incl. the band just above exp's underflow threshold (q/temp ~ -745..-720) with nearly tied actions
        temp = draw(st.sampled_from([0.1, 0.1, 0.01]))
        base = draw(st.sampled_from([-745.0, -744.0, -730.0, -800.0, 720.0, -300.0])) * temp
        iq = draw(st.one_of(st.just(base), st.lists(st.sampled_from([base, base + 0.5 * temp, base + 2 * temp, base - temp]),
                                                    min_size=2, max_size=3)))
    return {
        # a heuristic-style initial_q may be infinite / undefined at absorbing states (a pit is "infinitely far from the goal")
        "initial_q_at_absorbing": draw(st.sampled_from([None, None, None, "-inf", "inf", "nan", "undefined"])),
        "mdp": spec, "learner": draw(st.sampled_from(LEARNERS)),
        "step_size": draw(st.sampled_from([0, 0.1, 0.25, 0.5, 1, 1.0, 1e-10, 0.01])),
        "rand_choose": draw(st.sampled_from([0, 0.0, 0.1, 0.5, 1])),
        "softmax_temp": temp,
        "initial_q": iq, "episodes": draw(st.integers(1, 8)),
        "seed": draw(st.one_of(st.sampled_from([0, 1, 2 ** 31 - 1]), st.integers(0, 10 ** 6))),
    }


def eps_softmax(qrow, eps, temp):
    """independent definition of the epsilon-softmax behaviour policy"""
    acts = list(qrow)
    if temp == 0:
        m = max(qrow.values())
        best = [a for a in acts if qrow[a] == m]
        sm = {a: (1.0 / len(best) if a in best else 0.0) for a in acts}
    else:
        mx = max(qrow[a] / temp for a in acts)
        ws = {a: math.exp(qrow[a] / temp - mx) for a in acts}
        z = sum(ws.values())
        sm = {a: w / z for a, w in ws.items()}
    return {a: eps / len(acts) + (1 - eps) * sm[a] for a in acts}


def prop_td(case, ctx):
    import msdm.algorithms.tdlearning as td
    spec = case["mdp"]
    mdp, view = build_mdp(spec)
    ref = RefMDP(spec)
    S, A, sidx, aidx = view.S, view.A, view.sidx, view.aidx
    iq = case["initial_q"]
    absorbing_ = lambda s: bool(spec["absorbing"][sidx[s]])
    at_abs = case.get("initial_q_at_absorbing")      # what a callable initial_q says about absorbing states (never used: they are 0)
    if isinstance(iq, list) or at_abs:
        base_fn = (lambda s, a: iq[aidx[a] % len(iq)]) if isinstance(iq, list) else (lambda s, a: iq)

        def init_fn(s, a):
            if at_abs and absorbing_(s):
                if at_abs == "undefined":
                    raise KeyError(s)
                return float(at_abs)
            return base_fn(s, a)
        initial_q = init_fn
        if at_abs:
            ctx.event("initial_q_at_absorbing=" + at_abs)
    else:
        init_fn = lambda s, a: iq
        initial_q = iq
    absorbing = lambda s: bool(spec["absorbing"][sidx[s]])
    log = []

    class Recorder(td.TDLearningEventListener):
        def __init__(self):
            pass

        def end_of_timestep(self, lv):
            if len(log) > MAX_STEPS:
                raise Inconclusive("step budget")
            rec = {"kind": "step", "s": lv["s"], "a": lv["a"], "r": lv["r"], "ns": lv["ns"], "na": lv.get("na")}
            if "q1" in lv:
                rec["q1"] = {s: dict(r) for s, r in lv["q1"].items()}
                rec["q2"] = {s: dict(r) for s, r in lv["q2"].items()}
            else:
                rec["q"] = {s: dict(r) for s, r in lv["q"].items()}
            log.append(rec)

        def end_of_episode(self, lv):
            log.append({"kind": "end", "s": lv["s"]})

        def results(self):
            return None

    learner_cls = getattr(td, case["learner"])
    learner = learner_cls(episodes=case["episodes"], step_size=case["step_size"], rand_choose=case["rand_choose"],
                          softmax_temp=case["softmax_temp"], initial_q=initial_q, seed=case["seed"],
                          event_listener_class=Recorder)
    res = ctx.call("C10.train_raises", learner.train_on, mdp)
    name = case["learner"]
    alpha, gamma = case["step_size"], ref.gamma
    eps, temp = case["rand_choose"], case["softmax_temp"]

    def init_row(s):
        if absorbing(s):
            return {a: 0.0 for a in mdp.actions(s)}
        return {a: init_fn(s, a) for a in mdp.actions(s)}

    # ---------- (1) step validity ----------
    n_eps = sum(1 for r in log if r["kind"] == "end")
    ctx.check(n_eps == case["episodes"], "C10.episode_count", lambda: f"{n_eps} vs {case['episodes']}")
    prev = None
    visits = {}
    for r in log:
        if r["kind"] == "end":
            if prev is not None:
                ctx.check(absorbing(prev["ns"]), "C10.episode_ends_only_at_absorbing", lambda: f"episode ended after ns={prev['ns']}")
            else:
                ctx.check(absorbing(r["s"]), "C10.episode_ends_only_at_absorbing", lambda: f"empty episode from {r['s']}")
                ctx.check(r["s"] in [S[s] for s, w in spec["p0"] if w > 0], "C10.episode_starts_in_initial_support")
            prev = None
            continue
        s, a, ns, rew = r["s"], r["a"], r["ns"], r["r"]
        visits[s] = visits.get(s, 0) + 1
        ctx.check(not absorbing(s), "C10.step_from_absorbing_state", lambda: f"{s}")
        ctx.check(a in mdp.actions(s), "C10.step_unavailable_action", lambda: f"{s} {a}")
        if a in mdp.actions(s):
            p = ref.T[sidx[s], aidx[a], sidx[ns]]
            ctx.check(p > 0, "C10.step_impossible_transition", lambda: f"{s} {a} {ns}")
            ctx.check(rew == ref.R[sidx[s], aidx[a], sidx[ns]], "C10.step_reward", lambda: f"{s} {a} {ns}: {rew}")
        if prev is not None:
            ctx.check(not absorbing(prev["ns"]), "C10.episode_continues_past_absorbing", lambda: f"{prev['ns']}")
            ctx.check(prev["ns"] == s, "C10.steps_chain", lambda: f"{prev['ns']} then {s}")
            if name == "SARSA":
                ctx.check(prev["na"] == a, "C10.sarsa_next_action_is_taken", lambda: f"{prev['na']} then {a}")
        else:
            ctx.check(s in [S[x] for x, w in spec["p0"] if w > 0], "C10.episode_starts_in_initial_support", lambda: f"{s}")
        prev = r

    # ---------- (2) fold the update rule ----------
    def getrow(tab, s):
        if s not in tab:
            tab[s] = init_row(s)
        return tab[s]

    nonzero_td = False
    if name != "DoubleQLearning":
        model = {}
        for r in log:
            if r["kind"] != "step":
                continue
            s, a, ns, rew = r["s"], r["a"], r["ns"], r["r"]
            qs, qn = getrow(model, s), getrow(model, ns)
            if name == "QLearning":
                target = rew + gamma * max(qn.values())
            elif name == "SARSA":
                ctx.check(r["na"] in qn, "C10.sarsa_next_action_available", lambda: f"{ns} {r['na']}")
                target = rew + gamma * qn.get(r["na"], 0.0)
            else:
                pi = eps_softmax(qn, eps, temp)
                target = rew + gamma * sum(pi[x] * qn[x] for x in qn)
            tderr = target - qs[a]
            if abs(tderr) > 1e-12:
                nonzero_td = True
            qs[a] = qs[a] + alpha * tderr
            snap = r["q"]
            got = snap.get(s, {}).get(a)
            ctx.check(got is not None and abs(got - qs[a]) <= 1e-9 * (1 + abs(qs[a])), f"C10.{name}.update_rule",
                      lambda: f"after ({s},{a},{rew},{ns},{r['na']}): Q={got} expected {qs[a]}")
            # nothing else changed
            for s2, row in snap.items():
                mrow = getrow(dict(model), s2) if s2 in model else init_row(s2)
                for a2, v in row.items():
                    ctx.check(abs(v - mrow.get(a2, float('nan'))) <= 1e-9 * (1 + abs(v)), f"C10.{name}.table_equals_fold",
                              lambda: f"Q[{s2}][{a2}]={v} model {mrow.get(a2)}")
        final = {s: dict(row) for s, row in res.q_values.items()}
        for s2, row in final.items():
            mrow = model[s2] if s2 in model else init_row(s2)
            for a2, v in row.items():
                ctx.check(abs(v - mrow[a2]) <= 1e-9 * (1 + abs(v)), f"C10.{name}.returned_table_equals_fold",
                          lambda: f"Q[{s2}][{a2}]={v} model {mrow[a2]}")
        for s2 in model:
            ctx.check(s2 in final, f"C10.{name}.returned_table_misses_state", lambda: f"{s2}")
    else:
        m1, m2 = {}, {}
        for r in log:
            if r["kind"] != "step":
                continue
            s, a, ns, rew = r["s"], r["a"], r["ns"], r["r"]
            for tab in (m1, m2):
                getrow(tab, s), getrow(tab, ns)
            g1, g2 = r["q1"][s][a], r["q2"][s][a]
            ch1 = abs(g1 - m1[s][a]) > 1e-12
            ch2 = abs(g2 - m2[s][a]) > 1e-12
            ctx.check(not (ch1 and ch2), "C10.DoubleQLearning.both_tables_changed", lambda: f"{s},{a}")
            ok = False
            for (self_t, other_t, g_self, changed) in ((m1, m2, g1, ch1), (m2, m1, g2, ch2)):
                mx = max(self_t[ns].values())
                for astar in [x for x in self_t[ns] if self_t[ns][x] == mx]:
                    tderr = rew + gamma * other_t[ns][astar] - self_t[s][a]
                    new = self_t[s][a] + alpha * tderr
                    other_unchanged = not (ch2 if self_t is m1 else ch1)
                    if abs(new - g_self) <= 1e-9 * (1 + abs(new)) and other_unchanged:
                        ok = True
                        if abs(tderr) > 1e-12:
                            nonzero_td = True
            ctx.check(ok, "C10.DoubleQLearning.update_rule",
                      lambda: f"after ({s},{a},{rew},{ns}): q1 {m1[s][a]}->{g1}, q2 {m2[s][a]}->{g2}")
            m1[s][a], m2[s][a] = g1, g2
            for tab, snap in ((m1, r["q1"]), (m2, r["q2"])):
                for s2, row in snap.items():
                    mrow = tab[s2] if s2 in tab else init_row(s2)
                    for a2, v in row.items():
                        ctx.check(abs(v - mrow[a2]) <= 1e-9 * (1 + abs(v)), "C10.DoubleQLearning.table_equals_fold",
                                  lambda: f"[{s2}][{a2}]={v} model {mrow[a2]}")
        final = {s: dict(row) for s, row in res.q_values.items()}
        for s2, row in final.items():
            r1 = m1[s2] if s2 in m1 else init_row(s2)
            r2 = m2[s2] if s2 in m2 else init_row(s2)
            for a2, v in row.items():
                ctx.check(abs(v - (0.5 * r1[a2] + 0.5 * r2[a2])) <= 1e-9 * (1 + abs(v)), "C10.DoubleQLearning.returned_table_is_mean",
                          lambda: f"[{s2}][{a2}]={v}")

    # absorbing states fixed at 0
    for s2, row in final.items():
        if absorbing(s2):
            ctx.check(all(v == 0 for v in row.values()), "C10.absorbing_q_zero", lambda: f"{name}: Q[{s2}] = {row}")

    # ---------- (3) interval ----------
    if gamma < 1.0 and 0 <= alpha <= 1:
        pos = ref.W > 0
        rmin, rmax = float(ref.R[pos].min()), float(ref.R[pos].max())
        q0 = [init_fn(s, a) for s in mdp.state_list if not absorbing(s) for a in mdp.actions(s)] or [0.0]
        lo = min(min(q0), 0.0, rmin / (1 - gamma)) - 1e-9
        hi = max(max(q0), 0.0, rmax / (1 - gamma)) + 1e-9
        for s2, row in final.items():
            for a2, v in row.items():
                ctx.check(lo <= v <= hi, "C10.q_within_interval", lambda: f"{name} Q[{s2}][{a2}]={v} not in [{lo},{hi}]")

    # ---------- (4) policy ----------
    visited = set(visits)
    for s2 in mdp.state_list:
        dist = res.policy.action_dist(s2)
        got = {a: p for a, p in dist.items() if p > 0}
        if s2 in visited:
            row = final[s2]
            m = max(row.values())
            want = {a for a in row if row[a] == m}
            ctx.check(set(got) == want and all(abs(p - 1 / len(want)) <= 1e-12 for p in got.values()),
                      "C10.policy_greedy_at_visited", lambda: f"{name} state {s2}: policy {got} Q {row}")
        else:
            want = set(mdp.actions(s2))
            ctx.check(set(got) == want and all(abs(p - 1 / len(want)) <= 1e-12 for p in got.values()),
                      "C10.policy_uniform_at_unvisited", lambda: f"{name} state {s2} (never visited): policy {got}, actions {want}")
    ctx.event("learner=" + name)
    if any(absorbing(S[s]) for s, w in spec["p0"] if w > 0):
        ctx.event("absorbing_initial_state")
    ctx.nontrivial(case["episodes"] >= 2 and any(v >= 2 for v in visits.values()) and nonzero_td)


@st.composite
def reuse_cases(draw, tier="quick"):
    kw = dict(min_states=2, max_states=5, allow_explicit=False, absorbing_kinds=("n", "n", "n", "abs"), schemes=("int",))
    return {"a": draw(mdp_specs("dproper", **kw)), "b": draw(mdp_specs("dproper", **kw)),
            "learner": draw(st.sampled_from(LEARNERS)), "seed": draw(st.integers(0, 10 ** 6)),
            "episodes": draw(st.integers(1, 5)), "initial_q": draw(st.sampled_from([0, 2.0, -1.5]))}


def prop_reuse(case, ctx):
    import msdm.algorithms.tdlearning as td
    from vpm.checks.reuse import check_reuse, policy_table
    ma, _ = build_mdp(case["a"])
    mb, _ = build_mdp(case["b"])
    make = lambda: getattr(td, case["learner"])(episodes=case["episodes"], step_size=0.5, rand_choose=0.3,
                                               initial_q=case["initial_q"], seed=case["seed"])
    check_reuse(ctx, "C10.reuse", make, lambda l, m: l.train_on(m),
                lambda r, m: {"q": {s: dict(row) for s, row in r.q_values.items()},
                              "pi": policy_table(r.policy, list(m.state_list))}, ma, mb)
    ctx.nontrivial(case["a"] != case["b"])


PROPS = [Prop("reuse", lambda tier: reuse_cases(tier), prop_reuse, quick=400, thorough=24000,
              doc="a learner object reused on a second MDP gives the same result as a fresh one"),
         Prop("td", lambda tier: cases(tier), prop_td, quick=6000, thorough=360000,
              doc="recorded experience is valid and the returned Q-table equals the update rule folded over it")]
