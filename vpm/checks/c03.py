"""C03 — LAO* with an admissible heuristic returns an optimal closed policy."""
import math
import numpy as np
from hypothesis import strategies as st

from vpm.core import Prop, Inconclusive
from vpm.gen.mdp import mdp_specs
from vpm.build import build_mdp
from vpm.ref.mdp import RefMDP

PROPERTY_ID = "C03"
FUZZ = {"props": ["lao"], "quick": [2, 800], "thorough": [8, 30000]}
RULE = ("MDP specs: discounted (any structure, implicit+explicit absorbing states) and undiscounted proper (every "
        "policy reaches an explicitly absorbing state w.p.1), absorbing initial states, multi-state initial "
        "distributions, stochastic branching, state-dependent action sets x admissible heuristic (constant upper "
        "bound, exact V*, V* + non-negative per-state slack incl. at absorbing states) x seed (None, 0, ...) x "
        "randomize_action_order x randomize_nextstate_order. Oracle: policy-enumeration V*, exact evaluation of the "
        "returned policy over its own closure, listener invariant after every main-loop iteration. Non-trivial: >=3 "
        "reachable states, a stochastic action, inexact heuristic and >=2 expansions; distinct by spec hash."
        ' Also: MDPs of 16-45 states, None as an action label, heuristic-relative ties.'
        ' 150-260-state problems. Re-run capped at the number of main-loop passes the search made (same result).')
ASSUMPTIONS = ["reference V* by deterministic-policy enumeration (certified by Bellman residual)", "tolerance 1e-8 "
               "(LAO* rounds action values to 10 decimals)"]
TOL = 1e-8


@st.composite
def heuristic_specs(draw, n):
    kind = draw(st.sampled_from(["const", "exact", "slack", "slack", "tie"]))
    return {"kind": kind, "slack": [draw(st.sampled_from([0, 0, 0.05, 0.5, 1, 3])) for _ in range(n)],
            "const_extra": draw(st.sampled_from([0, 0.5, 2]))}


def tie_slack(ref, vstar, opt_q):
    """per-state slack that makes a sub-optimal action whose (sure) successor is s2 look exactly as good as the best
    action as long as s2 keeps its heuristic value: slack(s2) = (V*(s) - Q*(s,a)) / gamma. Still admissible."""
    slack = [0.0] * ref.n
    for s in range(ref.n):
        if ref.absorbing[s]:
            continue
        for a in range(ref.m):
            if not ref.avail[s, a]:
                continue
            succ = [k for k in range(ref.n) if ref.W[s, a, k] > 0]
            gap = float(vstar[s] - opt_q[s, a])
            if len(succ) == 1 and gap > 1e-9 and not ref.absorbing[succ[0]] and succ[0] != s:
                g = gap / ref.gamma
                if slack[succ[0]] == 0.0 or g < slack[succ[0]]:
                    slack[succ[0]] = g
    return slack


def make_heuristic(hs, ref, vstar, view):
    n = ref.n
    if hs["kind"] == "tie":
        sl = tie_slack(ref, vstar, hs["_q"])
        vals = [float(v) + x for v, x in zip(vstar, sl)]
        deterministic = all((ref.W[s, a] > 0).sum() <= 1 for s in range(n) for a in range(ref.m))
        if deterministic and ref.gamma == 1.0 and float(np.abs(ref.R - np.round(ref.R)).max()) == 0:
            # integer problem: make the ties exact in floating point
            vals = [float(round(v)) for v in vals]
        table = {view.S[i]: vals[i] for i in range(n)}
        return (lambda s: table[s]), vals
    if hs["kind"] == "tie2":
        # loose everywhere by the given slacks, and then - for a sub-optimal action a with a sure successor b - h(b) is
        # raised until a looks exactly as good *under the heuristic* as the best action does (still admissible)
        vals = [float(v) + x for v, x in zip(vstar, hs["slack"])]
        done = set()
        for s in range(n):
            if ref.absorbing[s]:
                continue
            qh = {}
            for a in range(ref.m):
                if ref.avail[s, a]:
                    qh[a] = sum(ref.T[s, a, k] * (ref.R[s, a, k] + ref.gamma * (0.0 if ref.absorbing[k] else vals[k]))
                                for k in range(n) if ref.W[s, a, k] > 0)
            best = max(qh.values())
            for a in qh:
                succ = [k for k in range(n) if ref.W[s, a, k] > 0]
                gap = float(vstar[s] - hs["_q"][s, a])
                if len(succ) == 1 and gap > 1e-9 and not ref.absorbing[succ[0]] and succ[0] != s and succ[0] not in done:
                    b = succ[0]
                    hb = (best - ref.R[s, a, b]) / ref.gamma
                    if hb >= float(vstar[b]):
                        vals[b] = hb
                        done.add(b)
        table = {view.S[i]: vals[i] for i in range(n)}
        return (lambda s: table[s]), vals
    if hs["kind"] == "const":
        c = max(0.0, float(np.max(vstar))) + hs["const_extra"]
        vals = [c] * n
    elif hs["kind"] == "exact":
        vals = [float(v) for v in vstar]
    else:
        vals = [float(v) + s for v, s in zip(vstar, hs["slack"])]
    table = {view.S[i]: vals[i] for i in range(n)}
    return (lambda s: table[s]), vals


@st.composite
def cases(draw, tier="quick"):
    big = tier == "thorough"
    spec = draw(st.one_of(
        mdp_specs("discounted", min_states=2, max_states=6 if big else 5, allow_explicit=False),
        mdp_specs("ssp", min_states=2, max_states=6 if big else 5, allow_explicit=False,
                  absorbing_kinds=("n", "n", "n", "n", "abs")),
    ))
    return {"mdp": spec, "heuristic": draw(heuristic_specs(spec["n"])),
            "seed": draw(st.one_of(st.sampled_from([0, 1, 2 ** 31 - 1]), st.integers(0, 10 ** 6))),
            "randomize_action_order": draw(st.booleans()), "randomize_nextstate_order": draw(st.booleans())}


def _large_case(t):
    import random
    spec, hk, seed, rao, rno = t
    spec = dict(spec, explicit_states=None)
    r = random.Random(seed)
    return {"mdp": spec, "heuristic": {"kind": hk, "slack": [r.choice([0, 0, 0.05, 0.5, 1, 3]) for _ in range(spec["n"])],
                                       "const_extra": r.choice([0, 0.5, 2])},
            "seed": seed % (10 ** 6), "randomize_action_order": rao, "randomize_nextstate_order": rno}


def large_cases(tier):
    """16-45 states: deep solution graphs, many expansions, large dynamic-programming sub-problems"""
    from vpm.gen.mdp import large_mdp_specs
    return st.tuples(st.one_of(large_mdp_specs("dproper", max_actions=3, max_out=3), large_mdp_specs("ssp", max_actions=3, max_out=3),
                               large_mdp_specs("discounted", max_actions=3, max_out=3, gammas=[0.5, 0.9, 0.95])),
                     st.sampled_from(["const", "exact", "slack", "slack", "tie"]), st.integers(0, 2 ** 32), st.booleans(), st.booleans()).map(_large_case)


def xl_cases(tier):
    from vpm.gen.mdp import large_mdp_specs
    return st.tuples(st.one_of(large_mdp_specs("dproper", min_states=150, max_states=260, max_actions=2, max_out=2),
                               large_mdp_specs("ssp", min_states=150, max_states=260, max_actions=2, max_out=2)),
                     st.sampled_from(["const", "slack", "slack"]), st.integers(0, 2 ** 32), st.booleans(), st.booleans()).map(_large_case)


def policy_closure(ctx, name, policy, spec, ref, view):
    """BFS from the positive initial support following every action in the support of the policy and
    every positive-probability successor (absorbing states are not left). Returns policy matrix."""
    n, m = ref.n, ref.m
    pi = np.zeros((n, m))
    for s in range(n):
        pi[s, int(np.argmax(ref.avail[s]))] = 1.0
    seen = set()
    frontier = [s for s, w in spec["p0"] if w > 0]
    while frontier:
        s = frontier.pop()
        if s in seen:
            continue
        seen.add(s)
        if ref.absorbing[s] and spec["absorbing"][s]:
            continue
        dist = ctx.call(f"{name}.policy_undefined_on_own_closure", policy.action_dist, view.S[s])
        row = {view.aidx[a]: float(p) for a, p in dist.items() if p > 0}
        ctx.check(abs(sum(row.values()) - 1) <= 1e-9, f"{name}.policy_row_sum", lambda: f"state {s}: {row}")
        bad = [a for a in row if not ref.avail[s, a]]
        ctx.check(not bad, f"{name}.policy_unavailable_action", lambda: f"state {s}: {row}")
        if bad:
            continue
        pi[s] = 0
        for a, p in row.items():
            pi[s, a] = p
            for ns in range(n):
                if ref.W[s, a, ns] > 0 and ns not in seen:
                    frontier.append(ns)
    return pi, seen


def prop_lao(case, ctx):
    from msdm.algorithms.laostar import LAOStar, LAOStarEventListener
    spec = case["mdp"]
    mdp, view = build_mdp(spec)
    ref = RefMDP(spec)
    opt = ref.optimal()
    vstar = opt["V"]
    h, hvals = make_heuristic(dict(case["heuristic"], _q=opt["Q"]), ref, vstar, view)
    scale = 1 + float(np.max(np.abs(vstar)))
    below = []

    class Listener(LAOStarEventListener):
        def __init__(self):
            self.iters = 0

        def main_lao_star_loop(self, lv):
            self.iters += 1
            if self.iters > 5000:
                raise Inconclusive("iteration budget")
            for s, node in lv["explicit_graph"].states_to_nodes.items():
                i = view.sidx[s]
                if node.value < vstar[i] - TOL * scale:
                    below.append((self.iters, i, float(node.value), float(vstar[i])))

    planner = LAOStar(heuristic=h, seed=case["seed"], randomize_action_order=case["randomize_action_order"],
                      randomize_nextstate_order=case["randomize_nextstate_order"], event_listener_class=Listener)
    res = ctx.call("C03.plan_raises", planner.plan_on, mdp)
    ctx.check(res.converged is True, "C03.converged", lambda: f"converged={res.converged}")
    jstar = float(sum(ref.p0[s] * vstar[s] for s in range(ref.n) if ref.p0[s] > 0))
    ctx.check(abs(float(res.initial_value) - jstar) <= TOL * scale, "C03.initial_value_optimal",
              lambda: f"initial_value {res.initial_value} optimal {jstar}")
    ctx.check(not below, "C03.value_below_optimal_during_search", lambda: f"(iteration, state, value, V*) {below[:3]}")
    for s, v in res.state_value_map.items():
        i = view.sidx[s]
        ctx.check(float(v) >= vstar[i] - TOL * scale, "C03.value_below_optimal", lambda: f"state {i}: {v} < V* {vstar[i]}")
    pi, seen = policy_closure(ctx, "C03", res.policy, spec, ref, view)
    ev = ref.evaluate(pi)
    jpi = float(sum(ref.p0[s] * ev["V"][s] for s in range(ref.n) if ref.p0[s] > 0))
    ctx.check(abs(jpi - jstar) <= TOL * scale, "C03.policy_return_optimal", lambda: f"J_pi {jpi} optimal {jstar}")
    # an iteration cap that does not cut the search short changes nothing: the same search, allowed exactly as many passes of
    # the main loop as it made, still reports convergence with the same value and the same policy on its closure
    n_passes = getattr(res.event_listener, "iters", 0)
    deterministic = case["seed"] is not None or not (case["randomize_action_order"] or case["randomize_nextstate_order"])
    if res.converged is True and 1 <= n_passes <= 400 and deterministic:
        capped = LAOStar(heuristic=h, seed=case["seed"], randomize_action_order=case["randomize_action_order"],
                         randomize_nextstate_order=case["randomize_nextstate_order"], max_lao_star_iterations=n_passes)
        res2 = ctx.call("C03.plan_raises", capped.plan_on, mdp)
        ctx.check(res2.converged is True, "C03.converged",
                  lambda: f"converged={res2.converged} with max_lao_star_iterations={n_passes}, the number of passes the uncapped search made")
        ctx.check(float(res2.initial_value) == float(res.initial_value), "C03.initial_value_optimal",
                  lambda: f"capped at its own {n_passes} passes: initial_value {res2.initial_value} vs {res.initial_value}")
        if res2.converged is True:
            pi2, seen2 = policy_closure(ctx, "C03", res2.policy, spec, ref, view)
            ctx.check(seen2 == seen and all(np.array_equal(pi2[s], pi[s]) for s in seen), "C03.policy_return_optimal",
                      lambda: f"capped at its own {n_passes} passes: policy closure {sorted(seen2)} vs {sorted(seen)}")
        ctx.event("capped_rerun")
    n_expanded = sum(1 for nd in res.explicit_graph.states_to_nodes.values() if nd.expanded)
    stochastic = any(sum(1 for ns, w, r in outs if w > 0) > 1 for s in seen for a, outs in spec["trans"][s])
    inexact = any(abs(hv - float(v)) > 1e-9 for hv, v in zip(hvals, vstar))
    ctx.event("flavour=" + spec["flavour"])
    ctx.event("heuristic=" + case["heuristic"]["kind"])
    if any(ref.absorbing[s] for s, w in spec["p0"] if w > 0):
        ctx.event("absorbing_initial_state")
    ctx.nontrivial(len(seen) >= 3 and stochastic and inexact and n_expanded >= 2)


@st.composite
def reuse_cases(draw, tier="quick"):
    kw = dict(min_states=2, max_states=5, allow_explicit=False, schemes=("int",))
    a = draw(st.one_of(mdp_specs("discounted", **kw), mdp_specs("ssp", absorbing_kinds=("n", "n", "n", "n", "abs"), **kw)))
    b = draw(st.one_of(mdp_specs("discounted", **kw), mdp_specs("ssp", absorbing_kinds=("n", "n", "n", "n", "abs"), **kw)))
    return {"a": a, "b": b, "slack": draw(st.sampled_from([0, 0.5, 2])), "seed": draw(st.integers(0, 10 ** 6))}


def shared_heuristic(case):
    """admissible for both problems: pointwise maximum of (V* + slack) over the two, keyed by state label"""
    table = {}
    built = []
    for spec in (case["a"], case["b"]):
        mdp, view = build_mdp(spec)
        v = RefMDP(spec).optimal()["V"]
        for i in range(spec["n"]):
            table[view.S[i]] = max(table.get(view.S[i], -float("inf")), float(v[i]) + case["slack"])
        built.append(mdp)
    return table, built


def prop_reuse(case, ctx):
    from msdm.algorithms.laostar import LAOStar
    from vpm.checks.reuse import check_reuse, policy_table
    table, (ma, mb) = shared_heuristic(case)
    make = lambda: LAOStar(heuristic=lambda s: table[s], seed=case["seed"])
    check_reuse(ctx, "C03.reuse", make, lambda pl, m: pl.plan_on(m),
                lambda r, m: {"V": r.state_value_map, "iv": r.initial_value, "conv": bool(r.converged),
                              "pi": policy_table(r.policy, list(r.state_value_map.keys()))}, ma, mb)
    ctx.nontrivial(case["a"] != case["b"])


PROPS = [Prop("reuse", lambda tier: reuse_cases(tier), prop_reuse, quick=300, thorough=18000,
              doc="an LAOStar object reused on a second MDP gives the same result as a fresh one"),
         Prop("lao", lambda tier: cases(tier), prop_lao, quick=4000, thorough=240000,
              doc="LAO* convergence, optimal initial value, upper-bound invariant, closed optimal policy"),
         Prop("lao_large", large_cases, prop_lao, quick=150, thorough=9000,
              doc="the same on MDPs with 16-45 states (reference optimum by certified policy iteration)"),
         Prop("lao_xl", xl_cases, prop_lao, quick=8, thorough=240,
              doc="the same on MDPs with 150-260 states (more simultaneously revised ancestors than any block size of 128)")]
