"""Scenario runner shared by the C13 check and its hash-seed worker processes.

run_scenario(scn) -> canonical digest string. A scenario is pure JSON:
  {"component": ..., "mdp"/"pomdp"/"graph": spec, "params": {...}, "seed": int, "use_rng_object": bool}
"""
import json
import random
import numpy as np

from vpm.build import build_mdp, build_pomdp
from vpm.ref.mdp import RefMDP


def _num(x):
    if isinstance(x, (bool, np.bool_)):
        return bool(x)
    if isinstance(x, (int, np.integer)):
        return int(x)
    x = float(x)
    if x != x:
        return "nan"
    if x in (float("inf"), float("-inf")):
        return str(x)
    return float(format(x, ".11g"))


def canon(o):
    """JSON-able canonical form: mappings sorted by repr of key, floats at 11 significant digits."""
    if hasattr(o, "detach"):
        o = o.detach().numpy()
    if isinstance(o, np.ndarray):
        return [canon(x) for x in o.tolist()]
    if isinstance(o, dict) or hasattr(o, "items") and hasattr(o, "keys"):
        return {"__map__": sorted(([repr(k), canon(v)] for k, v in o.items()), key=lambda kv: kv[0])}
    if isinstance(o, (set, frozenset)):
        return {"__set__": sorted(repr(x) for x in o)}
    if isinstance(o, (list, tuple)):
        return [canon(x) for x in o]
    if isinstance(o, (bool, int, float, np.integer, np.floating, np.bool_)):
        return _num(o)
    if o is None or isinstance(o, str):
        return o
    return repr(o)


def digest(o):
    return json.dumps(canon(o), sort_keys=True)


def _policy_table(policy, states):
    out = {}
    for s in states:
        try:
            out[s] = {a: p for a, p in policy.action_dist(s).items() if p > 0}
        except Exception as e:  # policy undefined there: part of the result
            out[s] = f"{type(e).__name__}"
    return out


def _rng_or_seed(scn):
    return random.Random(scn["seed"])


def run_scenario(scn, cache=None):
    """`cache` (a dict owned by the caller): the problem object is built once and the *same object* is handed to every
    repeat of the scenario - "the same problem" includes the same problem instance, which a run must leave as it found it"""
    comp = scn["component"]
    seed = scn["seed"]
    P = scn.get("params", {})
    if comp in ("laostar", "lrtdp", "td", "rmax", "mdp_rollout", "mdp_evaluate", "semimdp"):
        if cache is not None and "mdp" in cache:
            mdp, view, ref = cache["mdp"]
        else:
            mdp, view = build_mdp(scn["mdp"])
            ref = RefMDP(scn["mdp"])
            if cache is not None:
                cache["mdp"] = (mdp, view, ref)
    if comp == "laostar":
        from msdm.algorithms.laostar import LAOStar
        vstar = ref.optimal()["V"]
        table = {view.S[i]: float(vstar[i]) + P.get("slack", 1.0) for i in range(ref.n)}
        res = LAOStar(heuristic=lambda s: table[s], seed=seed, randomize_action_order=P.get("rao", True),
                      randomize_nextstate_order=P.get("rno", True)).plan_on(mdp)
        states = list(res.state_value_map.keys())
        return digest({"values": res.state_value_map, "initial_value": res.initial_value, "iterations": res.iterations,
                       "policy": _policy_table(res.policy, states),
                       "expanded": res.explicit_graph.states_by_expandedorder(),
                       "action_orders": {s: list(n.action_order) for s, n in res.explicit_graph.states_to_nodes.items()}})
    if comp == "lrtdp":
        from msdm.algorithms.lrtdp import LRTDP
        vstar = ref.optimal()["V"]
        table = {view.S[i]: float(vstar[i]) + P.get("slack", 1.0) for i in range(ref.n)}
        res = LRTDP(heuristic=lambda s: table[s], seed=seed, randomize_action_order=P.get("rao", True),
                    bellman_error_margin=P.get("margin", 1e-2)).plan_on(mdp)
        return digest({"V": dict(res.V), "initial_value": res.initial_value, "policy": _policy_table(res.policy, list(res.V.keys())),
                       "action_orders": {s: list(a) for s, a in res.action_orders.items()}})
    if comp in ("astar", "bfs"):
        from vpm.checks.c05 import build_problem
        from msdm.algorithms.search import AStarSearch, BreadthFirstSearch
        prob, L, idx, nxt, cost = build_problem(scn["graph"])
        if comp == "astar":
            res = AStarSearch(seed=seed, tie_breaking_strategy="random", randomize_action_order=P.get("rao", True)).plan_on(prob)
        else:
            res = BreadthFirstSearch(seed=seed, randomize_action_order=True).plan_on(prob)
        if res is None:
            return digest(None)
        return digest({"path": list(res.path), "visited": set(res.visited), "value": getattr(res, "path_value", None)})
    if comp == "td":
        import msdm.algorithms.tdlearning as td
        learner = getattr(td, P["learner"])(episodes=P.get("episodes", 5), step_size=P.get("step_size", 0.5),
                                           rand_choose=P.get("rand_choose", 0.3), softmax_temp=P.get("softmax_temp", 0.0),
                                           initial_q=P.get("initial_q", 0.0), seed=seed)
        res = learner.train_on(mdp)
        return digest({"q": {s: dict(r) for s, r in res.q_values.items()}, "episode_rewards": res.event_listener_results.episode_rewards})
    if comp == "rmax":
        from msdm.algorithms.rmax import RMAX
        res = RMAX(episodes=P.get("episodes", 5), rmax=float(np.max(mdp.reward_matrix)), num_transition_samples=P.get("m", 2),
                   seed=seed).train_on(mdp)
        return digest({"q": res.q_values, "episode_rewards": res.event_listener_results.episode_rewards})
    if comp in ("bpi", "ga", "pomdp_rollout"):
        if cache is not None and "pomdp" in cache:
            pomdp, view = cache["pomdp"]
        else:
            pomdp, view = build_pomdp(scn["pomdp"])
            if cache is not None:
                cache["pomdp"] = (pomdp, view)
        if comp != "pomdp_rollout" and scn.get("seed_kind") in ("int64", "uint32", "int32"):
            # a seed taken from a numpy array / SeedSequence.generate_state is a numpy integer
            seed = getattr(np, scn["seed_kind"])(seed)
    if comp == "bpi":
        from msdm.algorithms.fscboundedpolicyiteration import FSCBoundedPolicyIteration
        res = FSCBoundedPolicyIteration(controller_state_count=P.get("nodes", 2), iterations=P.get("iterations", 2), seed=seed).train_on(pomdp)
        return digest({"act": np.asarray(res.policy.action_strategy), "obs": np.asarray(res.policy.observation_strategy),
                       "init": np.asarray(res.policy.initial_state_dist), "value": float(res.value)})
    if comp == "ga":
        from msdm.algorithms.fscgradientascent import FSCGradientAscent
        res = FSCGradientAscent(controller_state_count=P.get("nodes", 2), iterations=P.get("iterations", 5), seed=seed).train_on(pomdp)
        return digest({"act": res.policy.action_strategy, "obs": res.policy.observation_strategy,
                       "init": res.policy.initial_state_dist, "value": float(res.value.expected_value)})
    if comp == "pomdp_rollout":
        from msdm.algorithms.qmdp import QMDPPolicy
        sl, al = list(pomdp.state_list), list(pomdp.action_list)
        sa = {s: {a: ((view.sidx[s] * 7 + view.aidx[a] * 3) % 5) for a in al} for s in sl}
        pol = QMDPPolicy(pomdp, sa)
        traj = pol.run_on(pomdp, max_steps=P.get("max_steps", 6), rng=_rng_or_seed(scn))
        return digest([[st.state, st.action, st.nextstate, st.reward, st.observation] for st in traj])
    if comp in ("mdp_rollout", "mdp_evaluate"):
        from msdm.core.mdp import FunctionalPolicy
        from msdm.core.distributions import DictDistribution
        pol = FunctionalPolicy(lambda s: DictDistribution.uniform(mdp.actions(s)))
        if comp == "mdp_rollout":
            res = pol.run_on(mdp, max_steps=P.get("max_steps", 8), rng=_rng_or_seed(scn))
            return digest([dict(st) for st in res.steps])
        res = pol.evaluate_on(mdp, n_simulations=P.get("n", 5), max_steps=P.get("max_steps", 8), rng=_rng_or_seed(scn))
        return digest({"state_value": dict(res.state_value.items()), "initial_value": res.initial_value,
                       "occupancy": dict(res.state_occupancy.items()),
                       "action_value": {s: dict(r.items()) for s, r in res.action_value.items()}})
    if comp == "semimdp":
        from msdm.core.semimdp.semimdp import SemiMarkovDecisionProcess
        from vpm.checks.c15 import make_option
        opts = [make_option(o, view, name_suffix="") for o in P["options"]]
        smdp = SemiMarkovDecisionProcess(mdp=mdp, options=opts, n_option_simulations=P.get("n_sims", 5), seed=seed)
        out = {}
        for s in sorted(set(range(ref.n))):
            for oi, (o, ospec) in enumerate(zip(opts, P["options"])):
                if s in ospec["term"]:
                    continue
                try:
                    out[(s, oi, o.name)] = dict(smdp.next_state_transit_time_reward_dist(view.S[s], o).items())
                except Exception as e:
                    out[(s, oi, o.name)] = type(e).__name__
        return digest(out)
    if comp == "implicit":
        from msdm.core.distributions import ImplicitDistribution
        events = P["events"]
        f = lambda rng: events[int(rng.random() * len(events))] if rng.random() < 0.9 else events[0]
        d = ImplicitDistribution(f, n_samples=P.get("n", 20), _seed=seed)
        items = dict(d.items())
        d2 = ImplicitDistribution(f, n_samples=P.get("n", 20), _seed=seed)
        ex = d2.expectation(lambda e: len(str(e)))
        d3 = ImplicitDistribution(f, n_samples=P.get("n", 20), _seed=seed).marginalize(lambda e: str(e)[:1])
        # conditioning by rejection: predicates may answer with any truthy / falsy value (bool, 0/1, a likelihood-like float)
        short = lambda e: len(str(e)) <= 1
        pred = {"bool": short, "int": lambda e: 1 if short(e) else 0,
                "frac": lambda e: 0.5 if short(e) else 0.25, "frac0": lambda e: 0.75 if short(e) else 0.0}[P.get("pred", "bool")]
        cond = []
        try:
            d4 = ImplicitDistribution(f, n_samples=P.get("n", 20), _seed=seed).condition(pred)
            cond = [d4.sample() for _ in range(6)] + [d4.sample(rng=random.Random(seed)) for _ in range(2)]
        except ValueError as e:
            cond = ["ValueError"]
        return digest({"items": items, "expectation": ex, "marginal": dict(d3.items()), "samples": [d3.sample() for _ in range(5)],
                       "conditioned": cond})
    raise ValueError(comp)
