"""C12 — tables index like nested dictionaries over their field domains."""
import itertools
import numpy as np
from hypothesis import strategies as st

from vpm.core import Prop, Rejected
from vpm.labels import enc, dec

PROPERTY_ID = "C12"
FUZZ = {"props": ["keys", "navigate"], "quick": [2, 800], "thorough": [8, 30000]}
RULE = ("Tables of 1-3 fields with domains of 1-4 mixed hashables (ints, strings, None, floats, tuples, frozensets, "
        "nested tuples) seeded with collisions (an outer-domain element that is itself a tuple of valid field keys), "
        "cell value = flat index; per table ALL full keys, nested key chains, outer-key lists (permutations and "
        "sub-lists up to length 3), slice / ellipsis forms and foreign keys (foreign atoms, over-long tuples, tuples "
        "with one foreign component) are enumerated; generated navigation sequences (select / restrict / slice) are "
        "mirrored on a numpy model; classes Table, ProbabilityTable, StateTable, StateActionTable, "
        "StateActionNextStateTable, TabularPolicy. Non-trivial: >=2 fields and a collision-prone outer domain (full "
        "keys) or >=3 navigation steps (navigation); distinct by spec hash."
        ' Also: domaintuple keys, inner domains that are re-ordered subsets of the outer one, over-long keys containing an ellipsis.'
        " float32 / int64 / longdouble tables, cells compared in the table's own number type. Outermost domains of 257-300 keys.")
ASSUMPTIONS = ["only the selector forms the statement names are generated (no tuple multi-selectors inside a key)",
               "for a foreign key get(k, default) may return the default or raise; only 'never a cell' is asserted"]

# -1 and -2 have the same hash in CPython, as do (0, -1) / (0, -2) and frozenset({-1}) / frozenset({-2})
ATOMS = [0, 1, 2, 3, "a", "b", "", None, 2.5, (0, 1), ("a", 0), frozenset({1}), (0,), (0, (1, 2)), -1, "zz", -2, (0, -1), (0, -2),
         frozenset({-1}), frozenset({-2})]
FOREIGN = ["#foreign#", 99, ("#f", 1), None, 7.25, frozenset({"#"}), -1, -2, frozenset({-2}), frozenset({-1})]
CLASSES = ["Table", "ProbabilityTable", "StateTable", "StateActionTable", "StateActionNextStateTable", "TabularPolicy"]


@st.composite
def table_specs(draw, classes=CLASSES):
    cls = draw(st.sampled_from(classes))
    nf = {"StateTable": 1, "StateActionTable": 2, "TabularPolicy": 2, "StateActionNextStateTable": 3}.get(cls)
    if nf is None:
        nf = draw(st.integers(1, 3))
    doms = []
    for f in range(nf):
        k = draw(st.integers(1, 4))
        idx = draw(st.lists(st.integers(0, len(ATOMS) - 1), min_size=k, max_size=k, unique=True))
        doms.append([ATOMS[i] for i in idx])
    if nf >= 2 and draw(st.integers(0, 3)) == 0:
        # an inner domain made of outer-domain values in another order ("go to node" actions)
        f = draw(st.integers(1, nf - 1))
        doms[f] = draw(st.permutations(doms[0]))[:draw(st.integers(1, len(doms[0])))]
    if cls == "StateActionNextStateTable":
        doms[2] = list(doms[0])
    collide = False
    if nf >= 2 and draw(st.booleans()):
        # an outer element that is also a valid field-wise key (prefix or full)
        ln = draw(st.integers(1, nf))      # (ln = 1: a one-element tuple wrapping another outer element)
        comp = tuple(doms[f][draw(st.integers(0, len(doms[f]) - 1))] for f in range(ln))
        if comp not in doms[0] and len(doms[0]) < 5:
            doms[0].append(comp)
            collide = True
            if cls == "StateActionNextStateTable":
                doms[2] = list(doms[0])
    if nf >= 2 and draw(st.integers(0, 3)) == 0:
        # an inner element that is a tuple of inner elements
        f = draw(st.integers(1, nf - 1))
        comp = tuple(doms[f][:2])
        if comp not in doms[f] and (cls != "StateActionNextStateTable" or f == 1):
            doms[f].append(comp)
    return {"cls": cls, "fields": [[enc(e) for e in d] for d in doms], "collide": collide,
            "dtype": draw(st.sampled_from([None, None, None, "float32", "int64", "longdouble"])) if cls in ("Table", "StateTable", "StateActionTable") else None}


def _expand_wide(args):
    """a table whose outermost domain has 257-300 keys (integers that are not their own position, or strings), expanded from
    a drawn seed; inner domains stay tiny"""
    import random
    cls, nf, k, kind, seed, dtype = args
    r = random.Random(seed)
    outer = r.sample(range(-k, 2 * k), k) if kind == "int" else [f"k{i}" for i in r.sample(range(3 * k), k)]
    doms = [outer] + [[ATOMS[i] for i in r.sample(range(6), r.randint(1, 2))] for _ in range(nf - 1)]
    if cls == "StateActionNextStateTable":
        doms[2] = list(doms[0])
    return {"cls": cls, "fields": [[enc(e) for e in d] for d in doms], "collide": False,
            "dtype": dtype if cls in ("Table", "StateTable", "StateActionTable") else None}


def wide_table_specs(classes=("Table", "ProbabilityTable", "StateTable", "StateActionTable", "TabularPolicy"), sizes=(257, 300, 520)):
    nf = {"StateTable": 1, "StateActionTable": 2, "TabularPolicy": 2}
    return st.sampled_from(list(classes)).flatmap(lambda cls: st.tuples(
        st.just(cls), st.just(nf[cls]) if cls in nf else st.integers(1, 2), st.sampled_from(list(sizes)),
        st.sampled_from(["int", "str"]), st.integers(0, 2 ** 32), st.sampled_from([None, "float32", "int64"]))).map(_expand_wide)


def build_table(spec):
    from msdm.core.table import Table, ProbabilityTable, TableIndex
    from msdm.core.mdp.tables import StateTable, StateActionTable, StateActionNextStateTable
    from msdm.core.mdp import TabularPolicy
    doms = [[dec(e) for e in d] for d in spec["fields"]]
    shape = tuple(len(d) for d in doms)
    base = np.arange(int(np.prod(shape)), dtype=float).reshape(shape) + 1.0
    dt = spec.get("dtype")
    if dt == "longdouble":      # extended precision, entries that are not doubles
        base = base.astype(np.longdouble) + np.longdouble(1) / np.longdouble(3)
    elif dt in ("float32", "int64"):
        base = base.astype(dt)
    cls = spec["cls"]
    names = ("f0", "f1", "f2")[:len(doms)]
    if cls == "Table":
        t = Table(data=base.copy(), table_index=TableIndex(field_names=names, field_domains=doms))
    elif cls == "ProbabilityTable":
        t = ProbabilityTable(data=base.copy(), table_index=TableIndex(field_names=names, field_domains=doms))
    elif cls == "StateTable":
        t = StateTable.from_state_list(doms[0], base.copy())
    elif cls == "StateActionTable":
        t = StateActionTable.from_state_action_lists(doms[0], doms[1], base.copy())
    elif cls == "StateActionNextStateTable":
        t = StateActionNextStateTable.from_state_action_lists(doms[0], doms[1], base.copy())
    elif cls == "TabularPolicy":
        t = TabularPolicy.from_state_action_lists(doms[0], doms[1], base.copy())
    return t, doms, base


def is_cell(x, value):
    """x is one scalar cell equal to value (anything else - a table, an array, None - is not)"""
    if is_tableish(x):
        return False
    try:
        # (compared in the table's own number type: an extended-precision cell is not equal to its double rounding)
        return np.ndim(x) == 0 and bool(x == value) and float(x) == float(value)
    except (TypeError, ValueError):
        return False


def is_tableish(x):
    return hasattr(x, "table_index")


def expect_equal(ctx, name, got, doms_left, arr, what):
    """got must be a scalar equal to arr (0-d) or a table whose field domains are doms_left and array arr."""
    if arr.ndim == 0:
        ctx.check(is_cell(got, arr), name, lambda: f"{what}: got {got!r} expected cell {float(arr)}")
        return
    ok = is_tableish(got)
    ctx.check(ok, name, lambda: f"{what}: expected a table, got {got!r}")
    if not ok:
        return
    gd = [list(d) for d in got.table_index.field_domains]
    ctx.check(gd == [list(d) for d in doms_left], name + ".domains", lambda: f"{what}: domains {gd} expected {doms_left}")
    ga = np.asarray(got)
    ctx.check(ga.shape == arr.shape and bool((ga == arr).all()), name + ".array",
              lambda: f"{what}: array {ga.tolist()} expected {arr.tolist()}")
    ctx.check(list(got.keys()) == list(doms_left[0]) and len(got) == len(doms_left[0]), name + ".keys",
              lambda: f"{what}: keys {list(got.keys())} expected {doms_left[0]}")


def prop_keys(spec, ctx):
    t, doms, base = build_table(spec)
    nf = len(doms)
    mdp_table = spec["cls"] in ("StateTable", "StateActionTable", "StateActionNextStateTable", "TabularPolicy")
    from msdm.core.mdp.tables import StateActionIndexError
    # keys / items / len over the outer domain in order
    ctx.check(list(t.keys()) == doms[0], "C12.keys_in_domain_order", lambda: f"{list(t.keys())} vs {doms[0]}")
    ctx.check(len(t) == len(doms[0]), "C12.len")
    ctx.check(list(iter(t)) == doms[0], "C12.iter_in_domain_order")
    ctx.check([k for k, _ in t.items()] == doms[0], "C12.items_in_domain_order")
    outer = doms[0]
    # (e) every outer element selects that element
    for i, k in enumerate(outer):
        got = ctx.call("C12.outer_key_raises", lambda: t[k])
        expect_equal(ctx, "C12.outer_element_selects_itself", got, doms[1:], base[i], f"t[{k!r}]")
    for (i, k), (k2, v) in zip(enumerate(outer), t.items()):
        expect_equal(ctx, "C12.items_values", v, doms[1:], base[i], f"items()[{k!r}]")
    # (a) full keys, (b) nested chains, partial keys
    for pos in itertools.product(*[range(len(d)) for d in doms]):
        key = tuple(doms[f][p] for f, p in enumerate(pos))
        # nested
        cur = t
        for f, p in enumerate(pos):
            cur = ctx.call("C12.nested_key_raises", lambda: cur[doms[f][p]])
        ctx.check(is_cell(cur, base[pos]), "C12.nested_key_cell",
                  lambda: f"nested {key!r}: {cur!r} expected {base[pos]}")
        if nf >= 2:
            if key in outer:
                i = outer.index(key)
                got = ctx.call("C12.full_key_raises", lambda: t[key])
                expect_equal(ctx, "C12.outer_membership_wins", got, doms[1:], base[i], f"t[{key!r}] (also an outer element)")
            else:
                got = ctx.call("C12.full_key_raises", lambda: t[key])
                ctx.check(is_cell(got, base[pos]), "C12.full_key_cell",
                          lambda: f"t[{key!r}] = {got!r} expected {base[pos]}")
        # partial keys (prefixes of length 2 in 3-field tables)
        if nf == 3:
            pk = key[:2]
            if pk not in outer:
                got = ctx.call("C12.partial_key_raises", lambda: t[pk])
                expect_equal(ctx, "C12.partial_key", got, doms[2:], base[pos[0], pos[1]], f"t[{pk!r}]")
    # a domaintuple (what state_list / action_list are) is a tuple: as a key it means what the plain tuple means -
    # the same cell / sub-table, or the same kind of error (its entries must all be outer elements to be accepted at all)
    if nf >= 2:
        from msdm.core.table import domaintuple
        from msdm.core.table.tableindex import DomainError
        dkeys = [k for ln in range(2, nf + 1) for k in itertools.product(outer, repeat=ln)][:150]
        for key in dkeys:
            if key in outer:
                continue
            try:
                want = t[key]
                werr = None
            except (Exception, DomainError) as e:
                want, werr = None, type(e).__name__
            try:
                got = t[domaintuple(key)]
                gerr = None
            except (Exception, DomainError) as e:
                got, gerr = None, type(e).__name__
            ctx.check(werr == gerr, "C12.domaintuple_key_is_a_tuple_key", lambda: f"t[{key!r}]: {werr or 'value'}; as domaintuple: {gerr or 'value'}")
            if werr is None and gerr is None:
                same = (is_tableish(want) == is_tableish(got)) and np.array_equal(np.asarray(want, dtype=float), np.asarray(got, dtype=float))
                ctx.check(same, "C12.domaintuple_key_is_a_tuple_key", lambda: f"t[{key!r}] = {want!r}; as domaintuple: {got!r}")
                ctx.event("domaintuple_key_value")
    # (d) lists of outer keys: permutations / sub-lists up to length 3
    idxs = list(range(len(outer)))
    lists = [list(p) for r in range(1, min(3, len(outer)) + 1) for p in itertools.permutations(idxs, r)]
    if 3 < len(outer) <= 5:
        full = [list(p) for p in itertools.permutations(idxs)]
        lists = lists[:40] + full[:: max(1, len(full) // 40)] + full[:24]
    else:
        lists = lists[:40]
    for li in lists:
        sel = [outer[i] for i in li]
        got = ctx.call("C12.outer_list_raises", lambda: t[sel])
        expect_equal(ctx, "C12.outer_list_subtable", got, [sel] + doms[1:], base[li], f"t[{sel!r}]")
        if is_tableish(got) and nf >= 1:
            # cells of the sub-table
            for j, k in enumerate(sel):
                sub = got[k]
                expect_equal(ctx, "C12.outer_list_subtable_cells", sub, doms[1:], base[li[j]], f"t[{sel!r}][{k!r}]")
    # slices and ellipses
    for form, sel in (("ellipsis", ...), ("slice", slice(None)), ("tuple_slice", (slice(None),)), ("tuple_ellipsis", (...,))):
        got = ctx.call("C12.full_slice_raises", lambda: t[sel])
        expect_equal(ctx, "C12.full_slice_is_whole_table", got, doms, base, f"t[{form}]")
    if nf >= 2:
        for j, k in enumerate(doms[1]):
            got = ctx.call("C12.slice_key_raises", lambda: t[:, k])
            expect_equal(ctx, "C12.slice_then_key", got, [doms[0]] + doms[2:], base[:, j], f"t[:, {k!r}]")
        for j, k in enumerate(doms[-1]):
            got = ctx.call("C12.ellipsis_key_raises", lambda: t[..., k])
            expect_equal(ctx, "C12.ellipsis_then_key", got, doms[:-1], base[..., j], f"t[..., {k!r}]")
        for i, k in enumerate(outer):
            if (k, ...) in outer or (k, slice(None)) in outer:
                continue
            got = ctx.call("C12.key_ellipsis_raises", lambda: t[k, ...])
            expect_equal(ctx, "C12.key_then_ellipsis", got, doms[1:], base[i], f"t[{k!r}, ...]")
            got = ctx.call("C12.key_slice_raises", lambda: t[k, :])
            expect_equal(ctx, "C12.key_then_slice", got, doms[1:], base[i], f"t[{k!r}, :]")
    # (g) foreign keys raise
    allelems = set(e for d in doms for e in d)
    foreign_atoms = [x for x in FOREIGN if x not in allelems and not any(x == e for e in allelems)]
    sentinel = object()

    def must_raise(sel, what):
        try:
            v = t[sel]
        except StateActionIndexError:
            ctx.assert_counts["C12.foreign_key_raises"] += 1
            return
        except BaseException as e:  # DomainError derives from BaseException
            if isinstance(e, (KeyboardInterrupt, SystemExit, MemoryError)):
                raise
            if mdp_table:
                ctx.viol("C12.foreign_key_state_action_index_error", f"{what}: raised {type(e).__name__} instead of StateActionIndexError")
            ctx.assert_counts["C12.foreign_key_raises"] += 1
            return
        ctx.viol("C12.foreign_key_raises", f"{what}: returned {v!r} instead of raising")

    def get_never_cell(sel, what):
        try:
            v = t.get(sel, sentinel)
        except BaseException as e:
            if isinstance(e, (KeyboardInterrupt, SystemExit, MemoryError)):
                raise
            return
        ctx.check(v is sentinel, "C12.get_foreign_key_never_a_cell", lambda: f"{what}: get returned {v!r}")

    for x in foreign_atoms:
        must_raise(x, f"t[{x!r}]")
        get_never_cell(x, f"t.get({x!r})")
        if nf >= 2:
            for pos in list(itertools.product(*[range(len(d)) for d in doms]))[:6]:
                for f in range(nf):
                    key = tuple(x if g == f else doms[g][p] for g, p in enumerate(pos))
                    if key in outer:
                        continue
                    must_raise(key, f"t[{key!r}]")
                    get_never_cell(key, f"t.get({key!r})")
        must_raise([x], f"t[[{x!r}]]")
        must_raise([outer[0], x], f"t[[{outer[0]!r}, {x!r}]]")
    # over-long tuples
    for pos in list(itertools.product(*[range(len(d)) for d in doms]))[:4]:
        key = tuple(doms[f][p] for f, p in enumerate(pos)) + (doms[0][0],)
        if key in outer:
            continue
        must_raise(key, f"t[{key!r}] (too many keys)")
        # ... and an ellipsis anywhere in an over-long key does not make it acceptable
        extras = [doms[0][0]] + foreign_atoms[:1]
        for x in extras:
            full = tuple(doms[f][p] for f, p in enumerate(pos))
            for k2 in (full + (x, ...), full + (..., x), (...,) + full + (x,), full[:1] + (...,) + full[1:] + (x,)):
                if any(k2 == o for o in outer if isinstance(o, tuple)):
                    continue
                must_raise(k2, f"t[{k2!r}] (too many keys, with an ellipsis)")
    ctx.event("cls=" + spec["cls"])
    if spec["collide"]:
        ctx.event("collision_domain")
    ctx.nontrivial((nf >= 2 and spec["collide"]) or len(doms[0]) > 256)


def prop_probrows(spec, ctx):
    """rows of probability tables / tabular policies are distributions over the row's domain."""
    t, doms, base = build_table(spec)
    nf = len(doms)
    if nf < 2:
        raise Rejected("one field")
    for pos in itertools.product(*[range(len(d)) for d in doms[:-1]]):
        key = tuple(doms[f][p] for f, p in enumerate(pos))
        if nf == 2:
            rows = [("t[k]", lambda: t[key[0]])]
            if spec["cls"] == "TabularPolicy":
                rows.append(("action_dist", lambda: t.action_dist(key[0])))
        else:
            rows = [("t[k0][k1]", lambda: t[key[0]][key[1]])]
            if key not in doms[0]:
                rows.append(("t[k0,k1]", lambda: t[key]))
        for what, f in rows:
            row = ctx.call("C12.probrow_raises", f)
            want = base[pos]
            ctx.check(hasattr(row, "prob") and hasattr(row, "support"), "C12.probrow_is_distribution", lambda: f"{what}: {row!r}")
            if not hasattr(row, "prob"):
                continue
            ctx.check(list(row.support) == doms[-1], "C12.probrow_support_is_row_domain",
                      lambda: f"{what} {key!r}: support {list(row.support)} expected {doms[-1]}")
            for j, e in enumerate(doms[-1]):
                ctx.check(float(row.prob(e)) == float(want[j]), "C12.probrow_prob_is_entry",
                          lambda: f"{what} {key!r}: prob({e!r}) = {row.prob(e)} expected {want[j]}")
            ctx.check([(e, float(p)) for e, p in row.items()] == [(e, float(want[j])) for j, e in enumerate(doms[-1])],
                      "C12.probrow_items", lambda: f"{what} {key!r}: {list(row.items())}")
            ctx.check(len(row) == len(doms[-1]), "C12.probrow_len")
            ctx.check([float(x) for x in row.values()] == [float(x) for x in want], "C12.probrow_values")
    if spec["cls"] == "TabularPolicy":
        # the policy's own entry point for a row: a key outside the state domain raises the state/action index error -
        # foreign atoms, and tuples put together from state labels that are neither a state nor a (state, action) pair
        from msdm.core.mdp.tables import StateActionIndexError
        allelems = set(e for d in doms for e in d)
        cands = [x for x in FOREIGN if not any(x == e for e in allelems)]
        # (assembled from non-tuple labels only: a tuple *inside* a key is a multi-selector, which the statement does not cover)
        st_ = [e for e in doms[0] if not isinstance(e, (tuple, list))] or [FOREIGN[0]]
        cands += [tuple(st_) + (st_[0],), tuple(st_[::-1]) + (st_[0], st_[0]), (st_[0], st_[-1], st_[0])]
        cands += [(a, b) for a in st_[:2] for b in st_[-2:] if not any(b == e for e in doms[1])]
        for x in cands:
            if any(x == e for e in doms[0]) or (isinstance(x, tuple) and len(x) <= 2 and (len(x) < 2 or any(x[1] == e for e in doms[1]))):
                continue
            try:
                v = t.action_dist(x)
            except StateActionIndexError:
                ctx.assert_counts["C12.action_dist_foreign_key_raises"] += 1
                continue
            except BaseException as e:  # DomainError derives from BaseException
                if isinstance(e, (KeyboardInterrupt, SystemExit, MemoryError)):
                    raise
                ctx.viol("C12.foreign_key_state_action_index_error", f"action_dist({x!r}): raised {type(e).__name__} instead of StateActionIndexError")
                continue
            ctx.viol("C12.action_dist_foreign_key_raises", f"action_dist({x!r}) with states {doms[0]!r}: returned {v!r} instead of raising")
    ctx.nontrivial(len(doms[-1]) >= 2)


# ---------------- navigation sequences, mirrored on a numpy model --------------------------------
@st.composite
def nav_cases(draw, tier="quick"):
    spec = draw(table_specs(classes=["Table", "ProbabilityTable", "StateActionNextStateTable", "StateActionTable", "TabularPolicy"]))
    ops = draw(st.lists(st.tuples(st.sampled_from(["key", "list", "slice_key", "ellipsis_key", "full", "tuple", "key_ellipsis"]),
                                  st.integers(0, 1000), st.integers(0, 1000)), min_size=1, max_size=6))
    return {"table": spec, "ops": [list(o) for o in ops]}


def prop_navigate(case, ctx):
    t, doms, base = build_table(case["table"])
    cur, cd, ca = t, [list(d) for d in doms], base
    steps = 0
    for op, r1, r2 in case["ops"]:
        if not is_tableish(cur):
            break
        outer = cd[0]
        if op == "key":
            i = r1 % len(outer)
            sel, nd, na = outer[i], cd[1:], ca[i]
        elif op == "key_ellipsis":
            i = r1 % len(outer)
            if (outer[i], ...) in outer:
                continue
            sel, nd, na = (outer[i], ...), cd[1:], ca[i]
        elif op == "list":
            ln = 1 + r1 % len(outer)
            perm = list(itertools.permutations(range(len(outer)), ln))
            li = list(perm[r2 % len(perm)])
            sel, nd, na = [outer[i] for i in li], [[outer[i] for i in li]] + cd[1:], ca[li]
        elif op == "slice_key":
            if len(cd) < 2:
                continue
            j = r1 % len(cd[1])
            sel, nd, na = (slice(None), cd[1][j]), [cd[0]] + cd[2:], ca[:, j]
        elif op == "ellipsis_key":
            if len(cd) < 2:
                continue
            j = r1 % len(cd[-1])
            sel, nd, na = (..., cd[-1][j]), cd[:-1], ca[..., j]
        elif op == "full":
            sel, nd, na = [..., slice(None)][r1 % 2], cd, ca
        elif op == "tuple":
            if len(cd) < 2:
                continue
            i, j = r1 % len(outer), r2 % len(cd[1])
            sel = (outer[i], cd[1][j])
            if sel in outer:
                k = outer.index(sel)
                nd, na = cd[1:], ca[k]
            else:
                nd, na = cd[2:], ca[i, j]
        got = ctx.call("C12.navigate.raises", lambda: cur[sel])
        expect_equal(ctx, "C12.navigate." + op, got, nd, np.asarray(na), f"step {steps} {op} {sel!r}")
        cur, cd, ca = got, nd, np.asarray(na)
        steps += 1
        ctx.event("op=" + op)
    ctx.nontrivial(steps >= 3)


PROPS = [
    Prop("keys", lambda tier: table_specs(), prop_keys, quick=3000, thorough=150000,
         doc="all full / nested / partial keys, outer-key lists, slices, ellipses and foreign keys of a generated table"),
    Prop("keys_wide", lambda tier: wide_table_specs(sizes=(257,)), prop_keys, quick=3, thorough=16,   # (about 2 GB per case: kept small in both tiers)
         doc="the same on tables whose outermost domain has 257-300 keys"),
    Prop("probrows_wide", lambda tier: wide_table_specs(classes=("ProbabilityTable", "TabularPolicy"), sizes=(257,) if tier == "quick" else (257, 300)),
         prop_probrows, quick=3, thorough=32,
         doc="rows of probability tables / policies with 257-300 rows"),
    Prop("probrows", lambda tier: table_specs(classes=["ProbabilityTable", "TabularPolicy"]), prop_probrows, quick=1500,
         thorough=45000, doc="rows of probability tables and tabular policies as distributions"),
    Prop("navigate", lambda tier: nav_cases(tier), prop_navigate, quick=4000, thorough=240000,
         doc="generated navigation sequences mirrored on a numpy model"),
]
