"""Runner:  python -m vpm.run C07 [--tier quick|thorough] [--replay FILE] [--props a,b] [--shards N]

exit 0  property held on everything explored (KNOWN-FINDING lines possible)
exit 1  VIOLATION property=<id> replay=<path>
exit 2  harness error (never reported as a violation)
"""
import argparse
import glob
import importlib
import json
import os
import sys
import time
import traceback
import warnings

HERE = os.path.dirname(os.path.abspath(__file__))
VERIF_ROOT = os.path.dirname(HERE)
sys.path.insert(0, VERIF_ROOT)

from vpm.core import (Ctx, Violation, Inconclusive, Rejected, StopShrink, HarnessError,  # noqa: E402
                      canon, spec_hash, derive_seed, load_known_findings, REPO_ROOT)

MAX_ROUNDS = 5
SHRINK_BUDGET_S = {"quick": 25.0, "thorough": 120.0}


def _prepare_imports():
    os.environ.setdefault("PYTHONDONTWRITEBYTECODE", "1")
    sys.dont_write_bytecode = True
    if REPO_ROOT not in sys.path:
        sys.path.insert(0, REPO_ROOT)
    warnings.filterwarnings("ignore")
    import logging
    logging.disable(logging.WARNING)
    import msdm
    mf = os.path.realpath(msdm.__file__)
    if not mf.startswith(os.path.realpath(REPO_ROOT) + os.sep):
        raise HarnessError(f"msdm imported from {mf}, expected under {REPO_ROOT}")


def load_module(pid):
    return importlib.import_module(f"vpm.checks.{pid.lower()}")


def _run_one(prop, spec, ctx):
    """Run fn on one spec. Returns None | ('viol', Violation)."""
    ctx.begin(prop.name, spec)
    try:
        prop.fn(spec, ctx)
    except Violation:
        ctx.end(ok=False)
        raise
    except Inconclusive:
        ctx.event("inconclusive")
        ctx.counters["inconclusive"] += 1
    except Rejected:
        ctx.event("rejected")
        ctx.counters["rejected"] += 1
    except (HarnessError, StopShrink):
        raise
    except BaseException as e:
        # (msdm's DomainError derives from BaseException: library-defined exception classes are handled like Exception)
        if not isinstance(e, Exception) and not type(e).__module__.startswith("msdm"):
            raise
        # An exception raised *inside msdm* (innermost frame in the library) while the harness was using its
        # public API is a violation of the property under test ("the call succeeds"), not a harness error;
        # anything raised by harness code itself stays a harness error.
        tb = traceback.extract_tb(e.__traceback__)
        inner = tb[-1].filename if tb else ""
        if "/msdm/" in inner and "/vpm/" not in inner:
            where = f"{inner.split('/msdm/', 1)[1]}:{tb[-1].lineno}"
            name = f"{ctx.pid}.{prop.name}.unexpected_exception_in_msdm"
            try:
                ctx.viol(name, f"{type(e).__name__}: {e} at {where}")
            except Violation:
                ctx.end(ok=False)
                raise
        else:
            raise
    ctx.end()


def run_prop_hypothesis(prop, ctx, n, seedval, tier):
    """Drive one property function with Hypothesis. Returns list of violation dicts
    (one per root cause / named assertion, up to MAX_ROUNDS)."""
    import hypothesis
    from hypothesis import given, settings, HealthCheck, Phase

    found = []
    for _round in range(MAX_ROUNDS):
        state = {"t_first": None, "best": None}

        def body(spec):
            # (the budget also ends a shrink whose attempts are slow *passing* cases - large instances)
            if state["t_first"] is not None and time.time() - state["t_first"] > SHRINK_BUDGET_S[tier]:
                raise StopShrink()
            try:
                _run_one(prop, spec, ctx)
            except Violation as v:
                size = len(canon(spec))
                if state["best"] is None or size <= state["best"][0]:
                    state["best"] = (size, spec, v.name, v.msg)
                now = time.time()
                if state["t_first"] is None:
                    state["t_first"] = now
                elif now - state["t_first"] > SHRINK_BUDGET_S[tier]:
                    raise StopShrink()
                raise

        test = given(prop.strat(tier))(body)
        test = settings(
            max_examples=n, database=None, deadline=None, derandomize=False,
            report_multiple_bugs=False, print_blob=False,
            suppress_health_check=list(HealthCheck),
            phases=[Phase.generate, Phase.shrink],
        )(test)
        test = hypothesis.seed(seedval)(test)
        try:
            test()
            break
        except StopShrink:
            pass
        except Violation:
            pass
        except hypothesis.errors.Flaky as e:
            # a violation that does not reproduce is still reported, unshrunk
            if state["best"] is None:
                raise HarnessError(f"flaky without recorded violation in {prop.name}: {e}")
        except BaseExceptionGroup as eg:  # noqa: F821
            if state["best"] is None:
                raise
        except Exception:
            # harness code tripping over a result whose first defect was already reported (its assertion is now
            # disabled and the case runs on): stop looking for further root causes, keep what was found
            if not found:
                raise
            break
        if state["best"] is None:
            break
        _, spec, name, msg = state["best"]
        found.append({"prop": prop.name, "assertion": name, "message": msg, "spec": json.loads(canon(spec))})
        ctx.disabled.add(name)
    return found


def run_shard(args):
    pid, tier, base_seed, shard, nshards, prop_filter = args
    t0 = time.time()
    out = {"shard": shard, "violations": [], "harness_error": None}
    try:
        os.environ["VPM_PID"] = pid
        _prepare_imports()
        mod = load_module(pid)
        ctx = Ctx(pid, load_known_findings(), getattr(mod, "KNOWN_PREDICATES", {}), tier)
        ctx.shard, ctx.nshards = shard, nshards
        props = [p for p in mod.PROPS if not prop_filter or p.name in prop_filter]
        byname = {p.name: p for p in mod.PROPS}
        # corpus replay first (shard 0 only)
        if shard == 0:
            for f in sorted(glob.glob(os.path.join(VERIF_ROOT, "corpus", pid, "*.json"))):
                with open(f) as fh:
                    case = json.load(fh)
                prop = byname.get(case["prop"])
                if prop is None or (prop_filter and prop.name not in prop_filter):
                    continue
                try:
                    _run_one(prop, case["spec"], ctx)
                    ctx.counters["corpus_replayed"] += 1
                except Violation as v:
                    out["violations"].append({"prop": prop.name, "assertion": v.name, "message": v.msg,
                                              "spec": case["spec"], "from_corpus": os.path.basename(f)})
                    ctx.disabled.add(v.name)
        for prop in props:
            total = prop.quick if tier == "quick" else prop.thorough
            n = max(1, -(-total // nshards))
            seedval = derive_seed(base_seed, pid, prop.name, shard)
            if getattr(prop, "runner", None) is not None:
                found = prop.runner(prop, ctx, n, seedval, tier)
            else:
                found = run_prop_hypothesis(prop, ctx, n, seedval, tier)
            out["violations"].extend(found)
        out.update(ctx.summary())
        out["meta"] = {"rule": getattr(mod, "RULE", ""), "assumptions": list(getattr(mod, "ASSUMPTIONS", [])),
                       "docs": {p.name: p.doc for p in mod.PROPS}}
    except BaseException as e:  # harness problems are reported as such
        out["harness_error"] = "".join(traceback.format_exception(type(e), e, e.__traceback__))[-6000:]
    out["wall_s"] = time.time() - t0
    return out


def merge(outs):
    from collections import Counter
    m = {"evaluations": 0, "per_prop_evals": Counter(), "nontrivial": set(), "counters": Counter(),
         "assert_counts": Counter(), "known_hits": Counter(), "samples": [], "violations": [], "harness_errors": []}
    for o in outs:
        if o.get("harness_error"):
            m["harness_errors"].append(o["harness_error"])
        if o.get("meta"):
            m["meta"] = o["meta"]
        m["violations"].extend(o.get("violations", []))
        m["evaluations"] += o.get("evaluations", 0)
        m["per_prop_evals"].update(o.get("per_prop_evals", {}))
        m["nontrivial"].update(o.get("nontrivial_hashes", []))
        m["counters"].update(o.get("counters", {}))
        m["assert_counts"].update(o.get("assert_counts", {}))
        m["known_hits"].update(o.get("known_hits", {}))
        if o.get("shard", 0) in (0, 1):
            m["samples"].extend(o.get("samples", []))
    return m


def write_evidence(pid, tier, seed, m, wall, nviol):
    meta = m.get("meta") or {"rule": "", "assumptions": [], "docs": {}}
    props = meta["docs"]
    per_prop_nt = {}
    for h in m["nontrivial"]:
        per_prop_nt[h.split(":")[0]] = per_prop_nt.get(h.split(":")[0], 0) + 1
    classes = {}
    for k, v in sorted(m["counters"].items()):
        classes[k] = v
    cov = {
        "evaluations": int(m["evaluations"]),
        "distinct_nontrivial": len(m["nontrivial"]),
        "rule": meta["rule"],
        "samples": m["samples"][:8] if m["samples"] else [],
        "per_property_function": {
            name: {"evaluations": int(m["per_prop_evals"].get(name, 0)),
                   "distinct_nontrivial": per_prop_nt.get(name, 0),
                   "doc": props.get(name, "")}
            for name in sorted(set(list(m["per_prop_evals"].keys()) + list(props.keys())))
        },
        "class_counts": classes,
        "assertion_evaluations": dict(sorted(m["assert_counts"].items())),
        "known_finding_hits": dict(m["known_hits"]),
        "inconclusive": int(m["counters"].get("inconclusive", 0)),
        "rejected_by_precondition": int(m["counters"].get("rejected", 0)),
        "exhaustive": False,
    }
    if m.get("fuzz"):
        cov["coverage_guided_stage"] = {
            "engine": "atheris / libFuzzer driving the same Hypothesis strategies (fuzz_one_input) and the same oracles; "
                      "branch coverage of the msdm package is the feedback signal",
            "campaigns": m["fuzz"],
            "executions": sum(f.get("executions", 0) for f in m["fuzz"]),
            "decoded_to_a_case": sum(f.get("decoded_to_a_case", 0) for f in m["fuzz"]),
            "note": "cases of this stage are included in evaluations / distinct_nontrivial above",
        }
    if not cov["samples"]:
        cov["samples"] = [{"note": "no non-trivial case recorded"}]
    ev = {
        "property_id": pid,
        "tier": tier,
        "seed": int(seed),
        "level": "exploration",
        "coverage": cov,
        "assumptions": meta["assumptions"],
        "wall_s": round(wall, 2),
        "violations": int(nviol),
    }
    os.makedirs(os.path.join(VERIF_ROOT, "evidence"), exist_ok=True)
    path = os.path.join(VERIF_ROOT, "evidence", f"{pid}.json")
    tmp = path + ".tmp"
    with open(tmp, "w") as f:
        json.dump(ev, f, indent=1, default=str)
        f.write("\n")
    os.replace(tmp, path)


def do_replay(pid, path):
    _prepare_imports()
    mod = load_module(pid)
    with open(path) as f:
        case = json.load(f)
    prop = {p.name: p for p in mod.PROPS}[case["prop"]]
    ctx = Ctx(pid, load_known_findings(), getattr(mod, "KNOWN_PREDICATES", {}))
    try:
        _run_one(prop, case["spec"], ctx)
    except Violation as v:
        print(f"replay: {v.name}: {v.msg}")
        print(f"VIOLATION property={pid} replay={path}")
        return 1
    for k, n in ctx.known_hits.items():
        print(f"KNOWN-FINDING: property={pid} {k} (replayed case hits a listed finding)")
    print(f"replay of {path}: property holds on this case")
    return 0


def _default_shards(pid, tier):
    """4 processes for quick, 16 for thorough, unless the check module declares SHARDS = {...}
    (read textually so that the master process need not import msdm)."""
    import re
    try:
        src = open(os.path.join(HERE, "checks", pid.lower() + ".py")).read()
        m = re.search(r"^SHARDS\s*=\s*(\{[^}]*\})", src, re.M)
        if m:
            return int(json.loads(m.group(1).replace("'", '"'))[tier])
    except Exception:
        pass
    return 4 if tier == "quick" else 16


def _fuzz_config(pid, tier):
    """FUZZ = {"props": [...], "quick": [workers, executions per worker], "thorough": [...]} in the check module
    (read textually, like SHARDS). Returns (props, workers, runs) or None."""
    import re
    try:
        src = open(os.path.join(HERE, "checks", pid.lower() + ".py")).read()
        m = re.search(r"^FUZZ\s*=\s*(\{.*?\})\s*$", src, re.M | re.S)
        if not m:
            return None
        cfg = json.loads(m.group(1).replace("'", '"'))
        workers, runs = cfg.get(tier, [0, 0])
        if os.environ.get("VERIF_FUZZ", "1") == "0" or workers <= 0 or runs <= 0:
            return None
        return cfg["props"], int(workers), int(runs)
    except Exception:
        return None


def _ensure_atheris():
    """atheris lives in /verif/.deps (not committed): install it from the offline wheelhouse when missing."""
    import subprocess
    deps = os.path.join(VERIF_ROOT, ".deps")
    if os.path.isdir(os.path.join(deps, "atheris")):
        return True
    try:
        subprocess.run([sys.executable, "-m", "pip", "install", "-q", "--no-index", "--find-links", "/opt/veriftools/wheels",
                        "--target", deps, "atheris"], check=True, capture_output=True, timeout=300)
    except Exception:
        return False
    return os.path.isdir(os.path.join(deps, "atheris"))


def run_fuzz_stage(pid, tier, seed, prop_filter):
    """Coverage-guided stage (vpm/fuzz.py): one libFuzzer campaign per worker process. Returns shard-style records."""
    import shutil
    import subprocess
    import tempfile
    cfg = _fuzz_config(pid, tier)
    if cfg is None:
        return []
    props, workers, runs = cfg
    if not _ensure_atheris():
        print(f"note: coverage-guided stage of {pid} skipped (atheris could not be installed from the offline wheelhouse)")
        return []
    if prop_filter:
        props = [p for p in props if p in prop_filter]
        if not props:
            return []
    jobs = int(os.environ.get("VERIF_JOBS", "0"))
    if jobs:
        workers = max(len(props), min(workers, jobs))
    tmp = tempfile.mkdtemp(prefix=f"vpm-fuzz-{pid}-")
    env = dict(os.environ)
    env["PYTHONPATH"] = os.pathsep.join([os.path.join(VERIF_ROOT, ".deps"), VERIF_ROOT, REPO_ROOT, env.get("PYTHONPATH", "")])
    procs = []
    try:
        for i in range(workers):
            outp = os.path.join(tmp, f"w{i}.json")
            log = open(os.path.join(tmp, f"w{i}.log"), "w")
            pr = subprocess.Popen([sys.executable, "-W", "ignore", "-m", "vpm.fuzz", pid, tier, str(seed), str(i), str(runs), outp,
                                   ",".join(props)], cwd=VERIF_ROOT, env=env, stdout=log, stderr=log)
            procs.append((i, pr, outp, log))
        outs = []
        budget = float(os.environ.get("VERIF_WALL_BUDGET_S", "1500" if tier == "quick" else "21600"))
        t_end = time.time() + budget
        for i, pr, outp, log in procs:
            try:
                pr.wait(timeout=max(1.0, t_end - time.time()))
            except subprocess.TimeoutExpired:
                pr.kill()
            log.close()
            if os.path.exists(outp):
                with open(outp) as f:
                    o = json.load(f)
                # last libFuzzer status line: coverage counters of the campaign
                try:
                    import re
                    lines = [l for l in open(os.path.join(tmp, f"w{i}.log"), errors="replace") if " cov: " in l]
                    if lines:
                        mm = re.search(r"cov: (\d+) ft: (\d+) corp: (\d+)", lines[-1])
                        o.setdefault("fuzz", {}).update(edges_covered=int(mm.group(1)), features=int(mm.group(2)), corpus_inputs=int(mm.group(3)))
                except Exception:
                    pass
                outs.append(o)
            else:
                tail = "".join(open(os.path.join(tmp, f"w{i}.log"), errors="replace").readlines()[-15:])
                outs.append({"shard": 1000 + i, "violations": [],
                             "harness_error": f"coverage-guided worker {i} left no record (exit {pr.returncode}):\n{tail}"})
        return outs
    finally:
        shutil.rmtree(tmp, ignore_errors=True)


def main(argv=None):
    ap = argparse.ArgumentParser()
    ap.add_argument("pid")
    ap.add_argument("--tier", default=os.environ.get("VERIF_TIER", "quick"), choices=["quick", "thorough"])
    ap.add_argument("--replay")
    ap.add_argument("--props", default="")
    ap.add_argument("--shards", type=int, default=0)
    ap.add_argument("--no-evidence", action="store_true")
    a = ap.parse_args(argv)
    pid = a.pid.upper()
    if a.replay:
        try:
            return do_replay(pid, a.replay)
        except Exception:
            traceback.print_exc()
            return 2
    try:
        seed = int(os.environ.get("VERIF_SEED", "1"))
    except ValueError:
        seed = 1
    t0 = time.time()
    nshards = a.shards or int(os.environ.get("VERIF_JOBS", "0")) or _default_shards(pid, a.tier)
    prop_filter = [p for p in a.props.split(",") if p]
    work = [(pid, a.tier, seed, i, nshards, prop_filter) for i in range(nshards)]
    if os.environ.get("VERIF_FUZZ") == "only":     # developer switch: measure the coverage-guided stage alone
        outs = []
    elif nshards == 1:
        outs = [run_shard(work[0])]
    else:
        # a worker that dies (e.g. out of memory inside a mutated algorithm) or never returns must not hang the
        # check: both are harness-level outcomes (exit 2), never a violation
        import multiprocessing as mp
        from concurrent.futures import ProcessPoolExecutor, wait
        from concurrent.futures.process import BrokenProcessPool
        budget = float(os.environ.get("VERIF_WALL_BUDGET_S", "1500" if a.tier == "quick" else "21600"))
        ex = ProcessPoolExecutor(max_workers=nshards, mp_context=mp.get_context("spawn"))
        futs = [ex.submit(run_shard, w) for w in work]
        done, pending = wait(futs, timeout=budget)
        outs = []
        for f in futs:
            if f in pending:
                outs.append({"shard": -1, "violations": [], "harness_error": f"shard did not finish within {budget:.0f} s (inconclusive)"})
                continue
            try:
                outs.append(f.result())
            except BrokenProcessPool:
                outs.append({"shard": -1, "violations": [], "harness_error": "a worker process died (killed / out of memory): inconclusive"})
            except Exception as e:  # noqa
                outs.append({"shard": -1, "violations": [], "harness_error": f"worker failed: {type(e).__name__}: {e}"})
        if pending:
            for p_ in list(getattr(ex, "_processes", {}).values()):
                try:
                    p_.kill()
                except Exception:
                    pass
        ex.shutdown(wait=False, cancel_futures=True)
    fuzz_outs = run_fuzz_stage(pid, a.tier, seed, prop_filter)
    outs = outs + fuzz_outs
    m = merge(outs)
    m["fuzz"] = [o["fuzz"] for o in fuzz_outs if o.get("fuzz")]
    wall = time.time() - t0

    known = {k["id"]: k for k in load_known_findings()}
    for kid, n in sorted(m["known_hits"].items()):
        print(f"KNOWN-FINDING: property={pid} {kid}: {known.get(kid, {}).get('what', '')} [{n} generated cases hit it]")

    # de-duplicate violations by assertion name, keep smallest spec
    by_name = {}
    for v in m["violations"]:
        k = v["assertion"]
        if k not in by_name or len(canon(v["spec"])) < len(canon(by_name[k]["spec"])):
            by_name[k] = v
    rc = 0
    for name, v in sorted(by_name.items()):
        d = os.path.join(os.environ.get("VERIF_REPLAY_DIR") or os.path.join(VERIF_ROOT, "replays"), pid)
        os.makedirs(d, exist_ok=True)
        path = os.path.join(d, f"{name.replace('/', '_')}-{spec_hash(v['spec'])}.json")
        with open(path, "w") as f:
            json.dump({"property": pid, "prop": v["prop"], "assertion": name, "message": v["message"],
                       "spec": v["spec"]}, f, indent=1)
        print(f"violation {name}: {v['message'][:600]}")
        print(f"VIOLATION property={pid} replay={path}")
        rc = 1
    if not a.no_evidence:
        try:
            write_evidence(pid, a.tier, seed, m, wall, len(by_name))
        except Exception:
            traceback.print_exc()
            rc = rc or 2
    if m["harness_errors"]:
        for e in m["harness_errors"][:3]:
            print("HARNESS ERROR:\n" + e, file=sys.stderr)
        return 1 if rc == 1 else 2
    tot = m["evaluations"]
    inc = m["counters"].get("inconclusive", 0)
    if tot and inc / tot > 0.01 and rc == 0:
        print(f"harness problem: {inc}/{tot} cases inconclusive (>1%)", file=sys.stderr)
        return 2
    print(f"{pid} {a.tier} seed={seed}: {tot} cases, {len(m['nontrivial'])} distinct non-trivial, "
          f"{len(by_name)} violations, {wall:.1f}s")
    return rc


if __name__ == "__main__":
    sys.exit(main())
