#!/usr/bin/env python3
"""tools/mktable.py - regenerate the property-function table of DESIGN.md section 2.8 from the check modules."""
import importlib, os, re, sys
ROOT = os.path.dirname(os.path.dirname(os.path.abspath(__file__)))
sys.path[:0] = [ROOT, os.environ.get("MSDM_REPO", "/repo")]
rows = ["| property | function | quick cases | what it checks |", "|---|---|---|---|"]
for i in range(1, 21):
    pid = f"C{i:02d}"
    mod = importlib.import_module(f"vpm.checks.{pid.lower()}")
    fz = set(getattr(mod, "FUZZ", {}).get("props", []))
    for p in mod.PROPS:
        q = "exhaustive" if p.__class__.__name__ == "ExhaustiveProp" else str(p.quick)
        doc = p.doc + (" (+ coverage-guided stage)" if p.name in fz else "")
        rows.append(f"| {pid} | `{p.name}` | {q} | {doc} |")
path = os.path.join(ROOT, "DESIGN.md")
s = open(path).read()
m = re.search(r"\| property \| function \| quick cases \| what it checks \|\n\|---\|---\|---\|---\|\n(?:\|.*\n)+", s)
assert m
s = s[:m.start()] + "\n".join(rows) + "\n" + s[m.end():]
open(path, "w").write(s)
print(len(rows) - 2, "property functions")
