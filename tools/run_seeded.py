#!/usr/bin/env python3
"""tools/run_seeded.py [--jobs N] [--seed S] [ids...]
Re-run the quick checks against every stored seeded change (seeded/<id>/patch.diff), each applied in its own scratch
worktree of /repo HEAD (MSDM_REPO points the check at it; /repo itself is never touched), and write
seeded/RESULTS.json: per seed the outcome (caught / MISSED / patch-does-not-apply / neutralised) and the assertions that fired.
Developer tool; not used by any registered check."""
import json, os, subprocess, sys, time
from concurrent.futures import ThreadPoolExecutor

ROOT = os.path.dirname(os.path.dirname(os.path.abspath(__file__)))
args = sys.argv[1:]
jobs, vseed = 4, "1"
while args and args[0].startswith("--"):
    if args[0] == "--jobs":
        jobs = int(args[1]); args = args[2:]
    elif args[0] == "--seed":
        vseed = args[1]; args = args[2:]
ids = args or sorted(d for d in os.listdir(os.path.join(ROOT, "seeded")) if os.path.isdir(os.path.join(ROOT, "seeded", d)))


def sh(cmd, **kw):
    return subprocess.run(cmd, shell=True, capture_output=True, text=True, **kw)


def one(sid):
    meta = json.load(open(os.path.join(ROOT, "seeded", sid, "meta.json")))
    prop = meta["property"]
    if meta.get("superseded_by_fix"):
        return sid, {"property": prop, "outcome": "neutralised", "by": meta["superseded_by_fix"]}
    wt = f"/tmp/wt/rs_{sid}"
    sh(f"git -C /repo worktree remove --force {wt}")
    r = sh(f"git -C /repo worktree add -q --detach {wt} HEAD")
    if r.returncode:
        return sid, {"property": prop, "outcome": "worktree-failed", "detail": r.stderr[-200:]}
    try:
        r = sh(f"git -C {wt} apply {os.path.join(ROOT, 'seeded', sid, 'patch.diff')}")
        if r.returncode:
            return sid, {"property": prop, "outcome": "patch-does-not-apply", "detail": r.stderr[-200:]}
        t0 = time.time()
        env = dict(os.environ, MSDM_REPO=wt, VERIF_REPLAY_DIR=f"/tmp/rp_rs_{sid}", VERIF_SEED=vseed, VERIF_JOBS="4")
        rr = subprocess.run([os.path.join(ROOT, "check"), prop, "--no-evidence"], capture_output=True, text=True, env=env, timeout=3600)
        names = sorted({l.split()[1].rstrip(":") for l in rr.stdout.splitlines() if l.startswith("violation ")})
        oc = {0: "MISSED", 1: "caught", 2: "harness-error"}.get(rr.returncode, "?")
        if oc == "MISSED" and meta.get("not_caught_reason"):
            oc = "MISSED (explained in meta.json / DESIGN.md section 7)"
        return sid, {"property": prop, "outcome": oc,
                     "assertions": names[:6], "seconds": round(time.time() - t0, 1)}
    finally:
        sh(f"git -C /repo worktree remove --force {wt}")
        sh(f"rm -rf /tmp/rp_rs_{sid}")


res = {}
with ThreadPoolExecutor(max_workers=jobs) as ex:
    for sid, r in ex.map(one, ids):
        res[sid] = r
        print(sid, r["outcome"], r.get("assertions", "")[:3] if isinstance(r.get("assertions"), list) else "", flush=True)
out = os.path.join(ROOT, "seeded", "RESULTS.json" if vseed == "1" else f"RESULTS.seed{vseed}.json")
prev = json.load(open(out)) if os.path.exists(out) and args else {}
prev_runs = prev.get("results", {})
prev_runs.update(res)
json.dump({"repo_head": sh("git -C /repo rev-parse --short HEAD").stdout.strip(),
           "verif_head": sh(f"git -C {ROOT} rev-parse --short HEAD").stdout.strip(), "verif_seed": int(vseed),
           "results": dict(sorted(prev_runs.items()))}, open(out, "w"), indent=1)
c = [r["outcome"] for r in prev_runs.values()]
print({k: c.count(k) for k in sorted(set(c))})
