#!/bin/bash
# tools/mutant.sh <file-relative-to-repo> <python-regex-or-literal old> <new> <Cnn> [extra check args]
# applies a textual mutation to /repo, runs the check (no evidence written), reverts. Developer tool.
f="$1"; old="$2"; new="$3"; pid="$4"; shift 4
cd /repo || exit 2
if ! git diff --quiet; then echo "repo dirty"; exit 2; fi
/venv/bin/python - "$f" "$old" "$new" <<'PY'
import sys
f, old, new = sys.argv[1:4]
s = open(f).read()
if old not in s:
    print("MUTATION TARGET NOT FOUND"); sys.exit(3)
open(f, "w").write(s.replace(old, new, 1))
PY
rc=$?
if [ $rc -ne 0 ]; then git checkout -- .; exit $rc; fi
cd /verif
./check "$pid" --no-evidence "$@" 2>&1 | grep -v "^WARNING" | grep -E "^(violation|VIOLATION|KNOWN|C[0-9]+ |HARNESS|harness)" | cut -c1-260 | head -12
echo "exit=${PIPESTATUS[0]}"
git -C /repo checkout -- .
