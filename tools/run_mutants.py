#!/usr/bin/env python3
"""tools/run_mutants.py [--jobs N] [ids or property ids...]
Apply each sensitivity mutant of sensitivity/mutants.py to a scratch worktree of /repo HEAD (never to /repo itself), run
the quick check against it (MSDM_REPO; no evidence written) and record the outcome in sensitivity/results.json.
Developer tool."""
import json, os, subprocess, sys, time
from concurrent.futures import ThreadPoolExecutor
ROOT = os.path.dirname(os.path.dirname(os.path.abspath(__file__)))
sys.path.insert(0, os.path.join(ROOT, "sensitivity"))
from mutants import M
args = sys.argv[1:]
jobs = 4
if args[:1] == ["--jobs"]:
    jobs, args = int(args[1]), args[2:]
only = set(args)
respath = os.path.join(ROOT, "sensitivity", "results.json")
results = json.load(open(respath)) if os.path.exists(respath) else {}


def sh(cmd):
    return subprocess.run(cmd, shell=True, capture_output=True, text=True)


def one(m):
    mid, pid, f, old, new, props = m
    wt = f"/tmp/wt/mut_{mid}"
    sh(f"git -C /repo worktree remove --force {wt}")
    r = sh(f"git -C /repo worktree add -q --detach {wt} HEAD")
    if r.returncode:
        return mid, {"property": pid, "outcome": "worktree-failed"}
    try:
        path = os.path.join(wt, f)
        src = open(path).read()
        if old not in src:
            return mid, {"property": pid, "outcome": "TARGET NOT FOUND"}
        open(path, "w").write(src.replace(old, new, 1))
        t0 = time.time()
        env = dict(os.environ, MSDM_REPO=wt, VERIF_REPLAY_DIR=f"/tmp/rp_mut_{mid}")
        cmd = [os.path.join(ROOT, "check"), pid, "--no-evidence"] + (["--props", props] if props else [])
        try:
            r = subprocess.run(cmd, capture_output=True, text=True, timeout=7200, env=env)
            names = sorted({l.split()[1].rstrip(":") for l in r.stdout.splitlines() if l.startswith("violation ")})
            outcome = {0: "MISSED", 1: "caught", 2: "harness-error"}.get(r.returncode, f"exit {r.returncode}")
        except subprocess.TimeoutExpired:
            names, outcome = [], "timeout"
        return mid, {"property": pid, "file": f, "mutation": f"{old.strip()[:90]!r} -> {new.strip()[:90]!r}", "outcome": outcome,
                     "assertions": names[:6], "seconds": round(time.time() - t0, 1)}
    finally:
        sh(f"git -C /repo worktree remove --force {wt}")
        sh(f"rm -rf /tmp/rp_mut_{mid}")


todo = [m for m in M if not only or m[0] in only or m[1] in only]
with ThreadPoolExecutor(max_workers=jobs) as ex:
    for mid, r in ex.map(one, todo):
        results[mid] = r
        print(mid, r["outcome"], r.get("assertions", [])[:4], flush=True)
        json.dump(results, open(respath, "w"), indent=1)
c = [r["outcome"] for r in results.values()]
print({k: c.count(k) for k in sorted(set(c))})
