#!/usr/bin/env python3
"""Apply each sensitivity mutant of sensitivity/mutants.py to /repo, run the quick check (no evidence
written), restore the tree, and record the outcome in sensitivity/results.json. Developer tool."""
import json, os, subprocess, sys, time
ROOT = os.path.dirname(os.path.dirname(os.path.abspath(__file__)))
sys.path.insert(0, os.path.join(ROOT, "sensitivity"))
from mutants import M
only = set(sys.argv[1:])
respath = os.path.join(ROOT, "sensitivity", "results.json")
results = json.load(open(respath)) if os.path.exists(respath) else {}
if subprocess.run(["git", "-C", "/repo", "diff", "--quiet"]).returncode != 0:
    sys.exit("repo dirty")
for mid, pid, f, old, new, props in M:
    if only and mid not in only and pid not in only:
        continue
    path = os.path.join("/repo", f)
    src = open(path).read()
    if old not in src:
        results[mid] = {"property": pid, "outcome": "TARGET NOT FOUND"}
        print(mid, "TARGET NOT FOUND"); continue
    open(path, "w").write(src.replace(old, new, 1))
    t0 = time.time()
    try:
        cmd = [os.path.join(ROOT, "check"), pid, "--no-evidence"] + (["--props", props] if props else [])
        r = subprocess.run(cmd, capture_output=True, text=True, timeout=900)
        names = sorted({l.split()[1].rstrip(":") for l in r.stdout.splitlines() if l.startswith("violation ")})
        outcome = {0: "MISSED", 1: "caught", 2: "harness-error"}.get(r.returncode, f"exit {r.returncode}")
    except subprocess.TimeoutExpired:
        names, outcome = [], "timeout"
    finally:
        subprocess.run(["git", "-C", "/repo", "checkout", "--", "."])
    results[mid] = {"property": pid, "file": f, "mutation": f"{old.strip()[:90]!r} -> {new.strip()[:90]!r}", "outcome": outcome,
                    "assertions": names[:6], "seconds": round(time.time() - t0, 1)}
    print(mid, outcome, names[:4], flush=True)
    json.dump(results, open(respath, "w"), indent=1)
subprocess.run(["rm", "-rf", os.path.join(ROOT, "replays")])
