#!/usr/bin/env python3
"""Regenerate MANIFEST.json from the check modules present under vpm/checks."""
import json, os, re
ROOT = os.path.dirname(os.path.dirname(os.path.abspath(__file__)))
props = [json.loads(l) for l in open(os.path.join(ROOT, "properties.jsonl"))]
META = json.load(open(os.path.join(ROOT, "tools", "manifest_meta.json")))
checks, na = [], []
for p in props:
    pid = p["id"]
    mod = os.path.join(ROOT, "vpm", "checks", pid.lower() + ".py")
    meta = META.get(pid, {})
    if os.path.exists(mod) and not meta.get("not_applicable"):
        checks.append({
            "property_id": pid,
            "quick_cmd": f"./check {pid} --tier quick",
            "thorough_cmd": f"./check {pid} --tier thorough",
            "evidence_file": f"/verif/evidence/{pid}.json",
            "replay_cmd_template": f"./check {pid} --replay {{path}}",
            "engine": "vpm",
            "level_claimed": {"category": "exploration", "text": meta.get("text", ""), "design_ref": f"DESIGN.md section 3, {pid}"},
            "level_note": meta.get("note", ""),
            "technique": meta.get("technique", "property-based testing (Hypothesis) against an independent reference model"),
        })
    else:
        na.append({"property_id": pid, "reason": meta.get("not_applicable", "check not built yet (work in progress); no claim is made")})
man = {
    "version": 1,
    "setup_cmd": "/venv/bin/python -c 'import hypothesis, frozendict' 2>/dev/null || /venv/bin/pip install --no-index --find-links /opt/veriftools/wheels hypothesis",
    "hooks": {"guard": "MSDM_VERIF", "enable": "no hooks: checks import /repo's working tree as it is (pure Python, fresh interpreter per check)",
              "baseline_off_cmd": "cd /repo && /venv/bin/python -m pytest -ra -q -p no:cacheprovider --timeout=900 --continue-on-collection-errors",
              "source_commits": [], "add_only": True},
    "engines": [{"name": "vpm", "path": "/verif/vpm", "serves_properties": [c["property_id"] for c in checks],
                 "kind_free_text": "Hypothesis-driven property-based testing: JSON spec generators, spec->msdm builders, independent reference models (numpy/fractions), named assertions, shrunk replay files, sharded over processes"}],
    "checks": checks,
    "not_applicable": na,
    "notes": "Every check: ./check <id> [--tier quick|thorough] [--replay file]. VERIF_SEED selects the Hypothesis seed (default 1). Exit 0 held / 1 VIOLATION / 2 harness error. known_findings.json lists recorded defects (status known: KF-C01, KF-C04, KF-C09, KF-C20) and repaired ones (status fixed, with their /repo commit). Ten checks add a coverage-guided stage (atheris, installed by the stage itself from the offline wheelhouse into .deps; VERIF_FUZZ=0 switches it off). seeded/ holds 140 independently written breaking changes (seeded/RESULTS.json: outcome per change at HEAD), sensitivity/ the hand mutants.",
}
json.dump(man, open(os.path.join(ROOT, "MANIFEST.json"), "w"), indent=1)
print("checks:", [c["property_id"] for c in checks], "na:", [n["property_id"] for n in na])
