#!/usr/bin/env python3
"""tools/kf.py fixed <ID> <property> <commit> <text>  — append a fixed entry to known_findings.json (developer tool, never used by checks)"""
import json, sys
p = __file__.rsplit("/tools/", 1)[0] + "/known_findings.json"
d = json.load(open(p))
kind, kid, prop, commit, text = sys.argv[1:6]
assert kind == "fixed"
d["findings"] = [f for f in d["findings"] if f["id"] != kid]
d["findings"].append({"id": kid, "property": prop, "status": "fixed", "commit": commit,
                      "line": f"fixed: property={prop} {commit} {text}"})
json.dump(d, open(p, "w"), indent=1)
