#!/usr/bin/env python3
"""tools/verify_seed.py <src-dir> <seed-name> <property> [check-ids...]
Confirm a seeded change (patch.diff + demo.py [+ notes.md]) in a scratch worktree of /repo HEAD:
 - demo exits 0 without the patch and non-zero with it,
 - the repository's test-suite gives the baseline result with the patch (only the 2 always-failing tests fail),
then store it under /verif/seeded/<seed-name>/ with meta.json, and run the named checks against the patched
scratch tree (MSDM_REPO), recording which assertions fire. Developer tool; never touches /repo's working tree."""
import json, os, shutil, subprocess, sys, time
ROOT = os.path.dirname(os.path.dirname(os.path.abspath(__file__)))
src, name, prop = sys.argv[1:4]
checks = sys.argv[4:] or [prop]
wt = f"/tmp/wt/verify_{name}"
env = dict(os.environ, PYTHONPATH=wt, PYTHONDONTWRITEBYTECODE="1")
def sh(cmd, **kw):
    return subprocess.run(cmd, shell=True, capture_output=True, text=True, **kw)
sh(f"git -C /repo worktree remove --force {wt}")
r = sh(f"git -C /repo worktree add -q --detach {wt} HEAD"); assert r.returncode == 0, r.stderr
meta = {"seed": name, "property": prop, "base_commit": sh("git -C /repo rev-parse --short HEAD").stdout.strip()}
try:
    demo = os.path.join(src, "demo.py")
    r0 = subprocess.run(["/venv/bin/python", demo], cwd=src, env=env, capture_output=True, text=True, timeout=900)
    meta["demo_exit_unchanged"] = r0.returncode
    r = sh(f"git -C {wt} apply {os.path.join(src, 'patch.diff')}"); assert r.returncode == 0, r.stderr
    r1 = subprocess.run(["/venv/bin/python", demo], cwd=src, env=env, capture_output=True, text=True, timeout=900)
    meta["demo_exit_changed"] = r1.returncode
    meta["demo_output_changed"] = (r1.stdout + r1.stderr)[-600:]
    t = subprocess.run("/venv/bin/python -m pytest -q -p no:cacheprovider --timeout=900 msdm/tests 2>&1 | tail -6", shell=True, cwd=wt, env=env,
                       capture_output=True, text=True, timeout=3600)
    tail = t.stdout
    failed = sorted(l.split()[1] for l in tail.splitlines() if l.startswith("FAILED"))
    meta["suite_failed_with_change"] = failed
    meta["suite_ok"] = failed == ["msdm/tests/test_core_table.py::test_TableIndex_numpy_array_TableIndex_conversion",
                                  "msdm/tests/test_fscboundedpolicyiteration.py::test_fsc_bpi_tiger_cvxpy"]
    meta["confirmed"] = bool(meta["demo_exit_unchanged"] == 0 and meta["demo_exit_changed"] != 0 and meta["suite_ok"])
    res = {}
    for c in checks:
        t0 = time.time()
        e = dict(os.environ, MSDM_REPO=wt, VERIF_REPLAY_DIR=f"/tmp/rp_{name}")
        rr = subprocess.run([os.path.join(ROOT, "check"), c, "--no-evidence"], capture_output=True, text=True, env=e, timeout=3600)
        names = sorted({l.split()[1].rstrip(":") for l in rr.stdout.splitlines() if l.startswith("violation ")})
        res[c] = {"exit": rr.returncode, "outcome": {0: "MISSED", 1: "caught", 2: "harness-error"}.get(rr.returncode, "?"),
                  "assertions": names[:8], "seconds": round(time.time() - t0, 1)}
    meta["checks"] = res
    meta["ran"] = [f"git apply patch.diff in a scratch worktree of /repo HEAD; demo.py with and without; msdm/tests with the change; "
                   f"MSDM_REPO=<scratch> ./check {c} --no-evidence (quick tier, VERIF_SEED=1)" for c in checks]
finally:
    sh(f"git -C /repo worktree remove --force {wt}")
    shutil.rmtree(f"/tmp/rp_{name}", ignore_errors=True)
dst = os.path.join(ROOT, "seeded", name)
os.makedirs(dst, exist_ok=True)
for f in ("patch.diff", "demo.py", "notes.md"):
    if os.path.exists(os.path.join(src, f)):
        shutil.copy(os.path.join(src, f), os.path.join(dst, f))
if os.path.exists(os.path.join(dst, "notes.md")):
    meta["needs_to_manifest"] = open(os.path.join(dst, "notes.md")).read()[:1500]
json.dump(meta, open(os.path.join(dst, "meta.json"), "w"), indent=1)
print(json.dumps({k: meta[k] for k in ("seed", "confirmed", "demo_exit_unchanged", "demo_exit_changed", "suite_ok")}), {c: (v["outcome"], v["assertions"][:3]) for c, v in meta.get("checks", {}).items()})
